"""C10, C12: grammar transformations validated as input/output pairs by Xform.tla."""
import os, json, time
import pvlib, tv
from pvlib import Reporter, write_evidence, tlc_gen, pv, read_ndjson, log, OUT, ToolError
from p_bnf import universe, R_WIDE, with_


def describe(first, ev, run_ev):
    return {"vec": ev.get("vec"), "kind": ev.get("kind"), "before": ev.get("before")}, \
        f"{ev.get('kind')}: before {json.dumps(ev.get('before'))[:300]} after {json.dumps(ev.get('after'))[:300]}"


def xform_check(prop, tier, replay, kind, filt, rule, n=4):
    t0 = time.time()
    rep = Reporter(prop, tier)
    vec_path = os.path.join(OUT, f"{prop}_{tier}.vec.ndjson")
    tot = {"generated": 0, "distinct": 0, "wall": 0.0}
    space_cov = []
    if replay:
        case = json.load(open(replay))["case"]
        with open(vec_path, "w") as f:
            f.write(json.dumps(case["vec"]) + "\n")
    else:
        nsim = 40 if tier == "quick" else 1500
        sps = [{"constants": with_(universe(tier), Filter=filt)},
               {"constants": with_(R_WIDE, Filter=filt), "simulate": nsim, "nshards": 16, "depth": 12}]
        with open(vec_path, "w") as fall:
            for si, sp in enumerate(sps):
                part = vec_path + f".{si}"
                gen = tlc_gen("Gen_G", sp["constants"], ["Emit"], 16, part, run_prefix=f"{prop}_{tier}_{si}",
                              simulate=sp.get("simulate"), depth=sp.get("depth", 20))
                if gen["violated"]:
                    raise ToolError(f"spec invariant {gen['violated']} violated in Gen_G")
                # the thorough universe yields millions of grammars: every k-th is transformed and validated (cap 200 000)
                with open(part) as f:
                    nlines = sum(1 for _ in f)
                every = max(1, -(-nlines // 200000))
                seen = set()
                for li, l in enumerate(open(part)):
                    if l not in seen and li % every == 0:
                        seen.add(l)
                        fall.write(l)
                os.remove(part)
                for k in ("generated", "distinct", "wall"):
                    tot[k] += gen[k]
                space_cov.append({"constants": {k: (sorted(v) if isinstance(v, (set, frozenset)) else v)
                                                for k, v in sp["constants"].items()},
                                  "mode": "exhaustive" if not sp.get("simulate") else f"tlc -simulate num={sp['simulate']} x 16 seeds",
                                  "states": gen["distinct"], "vectors": len(seen), "every": every})
    outp = os.path.join(OUT, f"{prop}_{tier}.replay.ndjson")
    pv(["replay", "xform", vec_path, outp], env={"PV_XFORM": kind, "PV_LANGN": n})
    res = read_ndjson(outp)
    summary = res[-1]["summary"]
    for r in res[:-1]:
        if "tool_error" in r:
            raise ToolError(r["tool_error"])
        m = r["mismatch"]
        rep.violation({"vec": r["vec"], "what": m["what"]},
                      f"{m['what']}: expected {json.dumps(m['expected'])[:200]} got {json.dumps(m['actual'])[:300]} on {json.dumps(r['vec'])[:300]}")
    if summary["trace_events"] == 0:
        raise ToolError("no xform events recorded (vacuous run)")
    tvres = tv.validate(prop, "Xform", outp + ".trace", rep, describe, nchunks=16, boundary="xform",
                        run_prefix=f"{prop}_{tier}_tv")
    samples = [json.loads(l) for i, l in enumerate(open(outp + ".trace")) if i in (0, summary["trace_events"] // 2)]
    for s in samples:
        s.pop("vec", None)
    rc = rep.finish()
    cov = {"states": max(tot["distinct"] + tvres["states"], 1), "transitions": max(tot["generated"] + tvres["states"], 1),
           "traces_validated_against_impl": tvres["cases_accepted"], "samples": samples,
           "evaluations": summary["evaluations"], "distinct_nontrivial": summary["tags"].get("changed", 0),
           "rule": rule, "tags": summary["tags"], "spaces": space_cov,
           "tv": {k: tvres[k] for k in ("events", "cases", "cases_accepted", "states")},
           "exhaustive": False, "known_findings_seen": rep.known, "tlc_wall_s": round(tot["wall"] + tvres["wall"], 1)}
    write_evidence(prop, tier, "model_checking", cov, time.time() - t0, len(rep.violations),
                   [f"language equality is checked for strings up to length {n}"])
    return rc


def c10(prop, tier, replay):
    return xform_check(prop, tier, replay, "leftfactor", "startprod",
                       "every grammar of the exhaustive universe whose start symbol has a production (well-formed or not) plus guided "
                       "random walks over the wide universe, in given and reversed production order, is handed to parol::left_factor "
                       "under a 20 s deadline; Xform.tla checks on the recorded input/output pair: same bounded language of the start "
                       "symbol, every original non-terminal keeps its language (a name clash would merge production sets), no two "
                       "non-empty alternatives of a non-terminal share their first symbol; non-trivial = left factoring changed the grammar")


def c12(prop, tier, replay):
    return xform_check(prop, tier, replay, "augment", "wf",
                       "every well-formed grammar of the exhaustive universe (incl. left/right/start-recursive ones) plus guided random "
                       "walks, in both production orders, goes through check_and_transform_grammar(.., LALR1); Xform.tla checks: same "
                       "bounded language, start symbol has exactly one production and occurs in no right-hand side, original "
                       "non-terminals keep their languages; non-trivial = the grammar was changed (augmented)")


REGISTRY = {"C10": c10, "C12": c12}
