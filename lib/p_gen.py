"""C24 (determinism across processes); later C22/C23 (compile and run the generated code)."""
import os, json, time, subprocess, hashlib
from concurrent.futures import ThreadPoolExecutor
import pvlib
from pvlib import Reporter, write_evidence, tlc_gen, read_ndjson, log, OUT, ToolError, PV


def par_of_g(g, lr=False):
    s = f"%start {g['start']}\n%title \"t\"\n%comment \"c\"\n" + ("%grammar_type 'LALR(1)'\n" if lr else "") + "%%\n"
    for p in g["prods"]:
        s += p["lhs"] + ":" + "".join((" " + x) if x in g["nts"] else f" '{x}'" for x in p["rhs"]) + ";\n"
    return s


def pvgen(par_path, k=5):
    r = subprocess.run([pvlib.PV, "gen", par_path, str(k)], stdout=subprocess.PIPE, stderr=subprocess.PIPE, text=True, timeout=300)
    for l in r.stdout.splitlines():
        if l.startswith("PVGEN "):
            return json.loads(l[6:])
    raise ToolError(f"pv gen produced no result for {par_path}: rc={r.returncode} {r.stderr[-500:]}")


def c24(prop, tier, replay):
    from p_bnf import with_
    from p_misc import corpus_pars, naming_vectors
    t0 = time.time()
    rep = Reporter(prop, tier)
    M = 5 if tier == "quick" else 16
    wd = os.path.join(OUT, f"{prop}_{tier}_pars")
    os.makedirs(wd, exist_ok=True)
    items = []   # (id, par text)
    tot = {"generated": 0, "distinct": 0}
    spaces = []
    if replay:
        case = json.load(open(replay))["case"]
        items.append((case["id"], case["par"]))
    else:
        vec = os.path.join(OUT, f"{prop}_{tier}.vec.ndjson")
        sp = [({"NTs": {"S"}, "Ts": {"a", "b"}, "MaxProds": 6, "MinProds": 1, "MaxRhs": 2, "Ordered": True, "Filter": "tie"}, "one NT"),
              ({"NTs": {"S", "A"}, "Ts": {"a", "b"}, "MaxProds": 4 if tier == "quick" else 5, "MinProds": 1, "MaxRhs": 2, "Ordered": True, "Filter": "tie"}, "two NTs")]
        n = 0
        for si, (c, name) in enumerate(sp):
            part = vec + f".{si}"
            g = tlc_gen("Gen_G", c, ["Emit"], 16, part, spec="ESpec", run_prefix=f"{prop}_{tier}_{si}")
            k = 0
            for l in open(part):
                v = json.loads(l)
                items.append((f"tie{si}-{k}", par_of_g(v["g"])))
                k += 1
            os.remove(part)
            tot["generated"] += g["generated"]
            tot["distinct"] += g["distinct"]
            spaces.append({"space": f"Gen_G Filter=tie ({name})", "vectors": k, "states": g["distinct"]})
        files = corpus_pars()
        step = 6 if tier == "quick" else 1
        for f in files[::step]:
            items.append((f, open(f).read()))
        spaces.append({"space": "repository .par files", "vectors": len(files[::step])})
        for v in naming_vectors():
            items.append((v["id"], v["par"]))
    if not items:
        raise ToolError("no grammars to generate from")

    def one(it):
        i, (gid, par) = it
        path = os.path.join(wd, f"g{i}.par")
        open(path, "w").write(par)
        outs = [pvgen(path) for _ in range(M)]
        return gid, par, outs
    ntie = 0
    ndiff = 0
    samples = []
    with ThreadPoolExecutor(max_workers=8) as ex:
        for gid, par, outs in ex.map(one, enumerate(items)):
            if outs[0]["status"] != "ok":
                sts = {o["status"] for o in outs}
                if len(sts) > 1:
                    rep.violation({"id": gid, "par": par, "what": "status"}, f"different outcomes in different processes: {sts} for {gid}")
                continue
            ntie += gid.startswith("tie")
            for art in ("expanded", "parser", "trait"):
                hs = {hashlib.sha1(o.get(art, "").encode()).hexdigest() for o in outs}
                if len(hs) > 1:
                    ndiff += 1
                    a = [o for o in outs if o[art] != outs[0][art]][0][art].splitlines()
                    b = outs[0][art].splitlines()
                    d = next(((x, y) for x, y in zip(a, b) if x != y), ("", ""))
                    rep.violation({"id": gid, "par": par, "what": art},
                                  f"{art} differs between {M} processes ({len(hs)} variants) for {gid}: e.g. '{d[1][:120]}' vs '{d[0][:120]}' grammar: {par[-200:]!r}")
                    break
            if len(samples) < 2:
                samples.append({"id": gid, "par": par})
    rc = rep.finish()
    cov = {"states": max(tot["distinct"], 1), "transitions": max(tot["generated"], 1), "traces_validated_against_impl": len(items),
           "samples": samples, "evaluations": len(items) * M, "distinct_nontrivial": ntie,
           "rule": f"grammars: all tie grammars of the universe (Gen_G with Filter=tie: a non-terminal with two different first symbols that each start the "
                   f"same maximal number of alternatives - the situation in which left factoring's outcome depends on which group it takes), plus "
                   f"repository grammars and the naming catalogue; parol runs end to end (expanded grammar, parser source, user-trait source) in {M} "
                   "separate processes per grammar (`pv gen`, fresh hash seeds) and the three artefacts must be byte-identical. non-trivial = tie grammars",
           "spaces": spaces, "processes_per_grammar": M, "exhaustive": False, "known_findings_seen": rep.known}
    write_evidence(prop, tier, "model_checking", cov, time.time() - t0, len(rep.violations),
                   ["the generated text is produced through the library API (the same stages the Builder runs), not through the parol binary"])
    return rc


REGISTRY = {"C24": c24}
