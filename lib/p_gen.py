"""C24 (determinism across processes); later C22/C23 (compile and run the generated code)."""
import os, json, time, subprocess, hashlib
from concurrent.futures import ThreadPoolExecutor
import pvlib
from pvlib import Reporter, write_evidence, tlc_gen, read_ndjson, log, OUT, ToolError, PV


def par_of_g(g, lr=False):
    s = f"%start {g['start']}\n%title \"t\"\n%comment \"c\"\n" + ("%grammar_type 'LALR(1)'\n" if lr else "") + "%%\n"
    for p in g["prods"]:
        s += p["lhs"] + ":" + "".join((" " + x) if x in g["nts"] else f" '{x}'" for x in p["rhs"]) + ";\n"
    return s


def pvgen(par_path, k=5):
    r = subprocess.run([pvlib.PV, "gen", par_path, str(k)], stdout=subprocess.PIPE, stderr=subprocess.PIPE, text=True, timeout=300)
    for l in r.stdout.splitlines():
        if l.startswith("PVGEN "):
            return json.loads(l[6:])
    raise ToolError(f"pv gen produced no result for {par_path}: rc={r.returncode} {r.stderr[-500:]}")


MULTI_ON = """%start S
%title "t"
%comment "c"
%user_type U1 = my::A
%user_type U2 = my::B
%user_type U3 = my::C
%nt_type T1 = my::N1
%nt_type T2 = my::N2
%nt_type T3 = my::N3
%on T1 %enter M2
%on T2 %push M3
%on T3 %enter M2
%on T4 %push M2
%on T5 %enter M3
%on T6 %push M3
%skip T7, T8
%scanner M2 {
    %on T1 %enter INITIAL
    %on T2 %pop
    %on T3 %enter M3
    %skip T7
}
%scanner M3 {
    %on T4 %enter INITIAL
    %on T5 %pop
    %on T6 %enter M2
    %skip T8
}
%%
S: { T1 | T2 | T3 | T4 | T5 | T6 | T7 | T8 };
T1: <INITIAL, M2>'t1';
T2: <INITIAL, M2>'t2';
T3: <INITIAL, M2>'t3';
T4: <INITIAL, M2, M3>'t4';
T5: <INITIAL, M3>'t5';
T6: <INITIAL, M3>'t6';
T7: <INITIAL, M2>'t7';
T8: <INITIAL, M3>'t8';
"""


def c24(prop, tier, replay):
    from p_bnf import with_
    from p_misc import corpus_pars, naming_vectors
    t0 = time.time()
    rep = Reporter(prop, tier)
    M = 5 if tier == "quick" else 16
    wd = os.path.join(OUT, f"{prop}_{tier}_pars")
    os.makedirs(wd, exist_ok=True)
    items = []   # (id, par text)
    tot = {"generated": 0, "distinct": 0}
    spaces = []
    if replay:
        case = json.load(open(replay))["case"]
        items.append((case["id"], case["par"]))
    else:
        vec = os.path.join(OUT, f"{prop}_{tier}.vec.ndjson")
        sp = [({"NTs": {"S"}, "Ts": {"a", "b"}, "MaxProds": 6, "MinProds": 1, "MaxRhs": 2, "Ordered": True, "Filter": "tie"}, "one NT"),
              ({"NTs": {"S", "A"}, "Ts": {"a", "b"}, "MaxProds": 4 if tier == "quick" else 5, "MinProds": 1, "MaxRhs": 2, "Ordered": True, "Filter": "tie"}, "two NTs")]
        n = 0
        for si, (c, name) in enumerate(sp):
            part = vec + f".{si}"
            g = tlc_gen("Gen_G", c, ["Emit"], 16, part, spec="ESpec", run_prefix=f"{prop}_{tier}_{si}")
            k = 0
            for l in open(part):
                v = json.loads(l)
                items.append((f"tie{si}-{k}", par_of_g(v["g"])))
                k += 1
            os.remove(part)
            tot["generated"] += g["generated"]
            tot["distinct"] += g["distinct"]
            spaces.append({"space": f"Gen_G Filter=tie ({name})", "vectors": k, "states": g["distinct"]})
        files = corpus_pars()
        step = 6 if tier == "quick" else 1
        # grammars whose rendering iterates over maps: several %on directives per scanner state are always included
        chosen = [f for i, f in enumerate(files) if i % step == 0 or open(f).read().count("%on ") >= 2]
        for f in chosen:
            items.append((f, open(f).read()))
        spaces.append({"space": "repository .par files (every %dth + all with >= 2 %%on directives)" % step, "vectors": len(chosen)})
        items.append(("multi-on", MULTI_ON))
        for v in naming_vectors():
            items.append((v["id"], v["par"]))
    if not items:
        raise ToolError("no grammars to generate from")

    def one(it):
        i, (gid, par) = it
        path = os.path.join(wd, f"g{i}.par")
        open(path, "w").write(par)
        outs = [pvgen(path) for _ in range(M)]
        return gid, par, outs
    ntie = 0
    ndiff = 0
    samples = []
    with ThreadPoolExecutor(max_workers=8) as ex:
        for gid, par, outs in ex.map(one, enumerate(items)):
            if outs[0]["status"] != "ok":
                sts = {o["status"] for o in outs}
                if len(sts) > 1:
                    rep.violation({"id": gid, "par": par, "what": "status"}, f"different outcomes in different processes: {sts} for {gid}")
                continue
            ntie += gid.startswith("tie")
            for art in ("expanded", "parser", "trait"):
                hs = {hashlib.sha1(o.get(art, "").encode()).hexdigest() for o in outs}
                if len(hs) > 1:
                    ndiff += 1
                    a = [o for o in outs if o[art] != outs[0][art]][0][art].splitlines()
                    b = outs[0][art].splitlines()
                    d = next(((x, y) for x, y in zip(a, b) if x != y), ("", ""))
                    rep.violation({"id": gid, "par": par, "what": art},
                                  f"{art} differs between {M} processes ({len(hs)} variants) for {gid}: e.g. '{d[1][:120]}' vs '{d[0][:120]}' grammar: {par[-200:]!r}")
                    break
            if len(samples) < 2:
                samples.append({"id": gid, "par": par})
    rc = rep.finish()
    cov = {"states": max(tot["distinct"], 1), "transitions": max(tot["generated"], 1), "traces_validated_against_impl": len(items),
           "samples": samples, "evaluations": len(items) * M, "distinct_nontrivial": ntie,
           "rule": f"grammars: all tie grammars of the universe (Gen_G with Filter=tie: a non-terminal with two different first symbols that each start the "
                   f"same maximal number of alternatives - the situation in which left factoring's outcome depends on which group it takes), plus "
                   f"repository grammars and the naming catalogue; parol runs end to end (expanded grammar, parser source, user-trait source) in {M} "
                   "separate processes per grammar (`pv gen`, fresh hash seeds) and the three artefacts must be byte-identical. non-trivial = tie grammars",
           "spaces": spaces, "processes_per_grammar": M, "exhaustive": False, "known_findings_seen": rep.known}
    write_evidence(prop, tier, "model_checking", cov, time.time() - t0, len(rep.violations),
                   ["the generated text is produced through the library API (the same stages the Builder runs), not through the parol binary"])
    return rc


REGISTRY = {"C24": c24}


# ------------------------------------------------------------------------------------------------
# C22 / C23: compile and run the generated code
# ------------------------------------------------------------------------------------------------
AST_FLAGS = ["lr", "clipA", "clipT", "memT", "memN", "opt", "rep", "grp", "nest", "reprep", "cliponly", "cmtT", "allclip", "boxed", "range", "trim", "userT", "ntt"]


def ast_template(on):
    """PAR text for a feature set and a list of (sentence tokens, expected AST tokens)"""
    on = set(on)
    c = "^" if "allclip" in on else ""
    s = "%start S\n%title \"t\"\n%comment \"c\"\n"
    if "lr" in on:
        s += "%grammar_type 'LALR(1)'\n"
    if "ntt" in on:
        s += "%nt_type Num = crate::ut::Num\n"
    s += "%%\n"
    a = "A" + ("^" if "clipA" in on else "")
    # reprep: a repetition written directly inside a single-alternative repetition, inner items distinguishable
    bpart = "{ B { Z } 'w'" + c + " }" if "reprep" in on else ("{ [ 'y'" + c + " ] B }" if "nest" in on else ("{ B }" if "rep" in on else "B"))
    cc = "C" + ("@copt" if "memN" in on else "")
    cpart = f"[ {cc} ]" if "opt" in on else cc
    d = "'d'" + ("^" if c else ("@dee" if "memT" in on else ""))
    e = "'e'" + ("^" if (c or "clipT" in on) else "")
    dpart = f"( {d} | {e} )" if "grp" in on else d
    # cliponly: a production whose only member is a clipped non-terminal (its struct has no field at all)
    tr = "Tr " if "cliponly" in on else ""
    # cmtT: a terminal whose text opens a Rust block comment (it is quoted in a comment of the generated struct)
    ct = " '/*'" + c if "cmtT" in on else ""
    s += f"S: {a} {tr}{bpart} {cpart} {dpart} Num{ct};\n"
    if "cliponly" in on:
        s += "Tr: Q^;\nQ: 'q';\n"
    s += f"A: 'a'{c};\nB: 'b'{c} 'x'{c};\nC: 'c'{c};\n"
    if "reprep" in on:
        s += f"Z: /z[0-9]/{c};\n"
    if "ntt" in on:
        s += f"Num: /[0-9]+/{c};\n"
    elif "userT" in on and not c:
        s += "Num: /[0-9]+/ : crate::ut::Num;\n"
    else:
        s += f"Num: /[0-9]+/{c};\n"
    # sentences
    cases = []
    nbs = [0, 1, 3] if ("rep" in on or "nest" in on or "reprep" in on) else [1]
    hcs = [False, True] if "opt" in on else [True]
    des = ["d", "e"] if "grp" in on else ["d"]
    for nb in nbs:
        for hc in hcs:
            for de in des:
                for ys in ([False, True] if "nest" in on and "reprep" not in on and nb else [False]):
                    toks = ["a"]
                    exp = [] if ("clipA" in on or c) else ["a"]
                    if "cliponly" in on:
                        toks.append("q")
                    for i in range(nb):
                        if ys and i == 1 % max(nb, 1):
                            toks.append("y")
                            if not c:
                                exp.append("y")
                        toks += ["b", "x"]
                        if not c:
                            exp += ["b", "x"]
                        if "reprep" in on:
                            inner = [f"z{i}{j}"[:2] if False else f"z{(3 * i + j) % 10}" for j in range((2, 0, 3)[i % 3])]
                            toks += inner + ["w"]
                            if not c:
                                exp += inner + ["w"]
                    if hc:
                        toks.append("c")
                        if not c:
                            exp.append("c")
                    toks.append(de)
                    if not c and not (de == "e" and "clipT" in on):
                        exp.append(de)
                    toks.append("7")
                    if not c:
                        exp.append("7")
                    if "cmtT" in on:
                        toks.append("/*")
                        if not c:
                            exp.append("/*")
                    cases.append((toks, exp, {"nb": nb, "has_c": hc}))
    return s, cases


def genprobe(prop, tier, replay, run):
    import re, shutil
    from pvlib import tlc_gen
    t0 = time.time()
    rep = Reporter(prop, tier)
    root = os.path.join(pvlib.BUILD, f"genprobe_{prop}")
    src = os.path.join(root, "src")
    shutil.rmtree(src, ignore_errors=True)
    os.makedirs(src, exist_ok=True)
    # feature sets from Gen_Flags
    vec = os.path.join(OUT, f"{prop}_{tier}.vec.ndjson")
    if replay:
        case = json.load(open(replay))["case"]
        sets = [case["flags"]]
        g = {"generated": 0, "distinct": 0}
    else:
        k = 2 if tier == "quick" else 3
        parts = []
        g = {"generated": 0, "distinct": 0}
        for (lo, hi, tag) in ((0, k, "a"), (len(AST_FLAGS) - 1, len(AST_FLAGS), "b")):
            part = vec + tag
            gg = tlc_gen("Gen_Flags", {"Flags": set(AST_FLAGS), "MinOn": lo, "MaxOn": hi}, ["Emit"], 1, part, spec="Spec",
                         run_prefix=f"{prop}_{tier}_{tag}", no_shard_consts=True)
            parts += [json.loads(l)["flags"] for l in open(part)]
            os.remove(part)
            g["generated"] += gg["generated"]
            g["distinct"] += gg["distinct"]
        sets = parts
    repo = (pvlib.ALT_REPO or "/repo").rstrip("/")
    mods = []
    inputs = []
    rejected = 0
    for i, flags in enumerate(sets):
        par, cases = ast_template(flags)
        pf = os.path.join(root, f"g{i}.par")
        open(pf, "w").write(par)
        args = [pvlib.PV, "builder", pf, src, f"G{i}", f"g{i}"] + [f for f in ("boxed", "range", "trim") if f in flags]
        r = subprocess.run(args, stdout=subprocess.PIPE, stderr=subprocess.PIPE, text=True, timeout=300)
        st = None
        for l in r.stdout.splitlines():
            if l.startswith("PVGEN "):
                st = json.loads(l[6:])
        if not st or st["status"] != "ok":
            # the template grammars are all meant to be accepted
            rep.violation({"flags": flags, "par": par, "what": "generation"}, f"parol did not generate code for feature set {flags}: {st} {r.stderr[-300:]}")
            rejected += 1
            continue
        tsrc = open(os.path.join(src, f"g{i}_trait.rs")).read()
        m = re.search(r"pub trait (G%dTrait)(<'t>)?" % i, tsrc)
        has_lt = bool(m and m.group(2))
        s_lt = bool(re.search(r"pub struct S<'t>", tsrc))
        lt = "<'t>" if has_lt else ""
        stub = f"""use crate::g{i}_trait::{{G{i}Trait, S}};
#[allow(unused_imports)]
use parol_runtime::Result;
pub struct G{i}{lt} {{ pub count: usize, pub dbg: String, {"_p: std::marker::PhantomData<&'t ()>," if has_lt else ""} }}
impl{lt} G{i}{lt} {{ pub fn new() -> Self {{ Self {{ count: 0, dbg: String::new(), {"_p: std::marker::PhantomData," if has_lt else ""} }} }} }}
impl{lt} G{i}Trait{lt} for G{i}{lt} {{
    fn s(&mut self, arg: &S{"<'t>" if s_lt else ""}) -> Result<()> {{ self.count += 1; self.dbg = format!("{{arg:?}}"); Ok(()) }}
}}
pub fn run(input: &str) -> (bool, usize, String) {{
    let mut g = G{i}::new();
    let ok = crate::g{i}_parser::parse(input, "in.txt", &mut g).is_ok();
    (ok, g.count, g.dbg.clone())
}}
"""
        if "ntt" in flags:
            # %nt_type Num = crate::ut::Num: the user supplies the conversion from the generated non-terminal type
            nlt = "<'t>" if re.search(r"pub struct Num<'t>", tsrc) else ""
            stub += f"""impl{nlt} TryFrom<&crate::g{i}_trait::Num{nlt}> for crate::ut::Num {{
    type Error = anyhow::Error;
    fn try_from(n: &crate::g{i}_trait::Num{nlt}) -> std::result::Result<Self, Self::Error> {{
        let d = format!("{{n:?}}");
        let t = d.split("text: \\"").nth(1).and_then(|r| r.split('"').next()).unwrap_or("").to_string();
        Ok(crate::ut::Num(t))
    }}
}}
"""
        open(os.path.join(src, f"g{i}.rs"), "w").write(stub)
        mods.append(i)
        for toks, exp, shape in cases:
            inputs.append({"i": i, "text": " ".join(toks), "exp": exp, "flags": flags, "shape": shape})
    open(os.path.join(src, "ut.rs"), "w").write("""use parol_runtime::Token;
#[derive(Clone)]
pub struct Num(pub String);
impl std::fmt::Debug for Num { fn fmt(&self, f: &mut std::fmt::Formatter<'_>) -> std::fmt::Result { if self.0.is_empty() { write!(f, "Num(clipped)") } else { write!(f, "Token {{ text: {:?} }}", self.0) } } }
impl<'t> TryFrom<&Token<'t>> for Num { type Error = anyhow::Error; fn try_from(t: &Token<'t>) -> std::result::Result<Self, Self::Error> { Ok(Num(t.text().to_string())) } }
impl parol_runtime::ToSpan for Num { fn span(&self) -> parol_runtime::Span { parol_runtime::Span::default() } }
""")
    lib = "#![allow(clippy::all, unused, non_camel_case_types)]\npub mod ut;\n" + "".join(f"pub mod g{i};\npub mod g{i}_trait;\npub mod g{i}_parser;\n" for i in mods)
    open(os.path.join(src, "lib.rs"), "w").write(lib)
    main = "use std::io::BufRead;\nfn main() {\n    for line in std::io::stdin().lock().lines() {\n        let line = line.unwrap();\n        let (i, text) = line.split_once('\\t').unwrap();\n        let r = match i.parse::<usize>().unwrap() {\n"
    main += "".join(f"            {i} => genprobe::g{i}::run(text),\n" for i in mods)
    main += "            _ => (false, 0, String::new()),\n        };\n        println!(\"{}\\t{}\\t{}\\t{}\", i, r.0, r.1, r.2.replace('\\n', \" \"));\n    }\n}\n"
    open(os.path.join(src, "main.rs"), "w").write(main)
    open(os.path.join(root, "Cargo.toml"), "w").write(f"""[package]
name = "genprobe"
version = "0.0.0"
edition = "2024"
[workspace]
[dependencies]
parol_runtime = {{ path = "{repo}/crates/parol_runtime" }}
anyhow = "1"
scnr2 = "0.5.2"
[profile.dev]
debug = 0
opt-level = 0
""")
    if not os.path.exists(os.path.join(root, "Cargo.lock")):
        shutil.copy(os.path.join(repo, "Cargo.lock"), os.path.join(root, "Cargo.lock"))
    log(f"[genprobe] {len(mods)} generated parsers, compiling ...")
    r = subprocess.run(["cargo", "build", "--offline", "--message-format=short"], cwd=root, stdout=subprocess.PIPE, stderr=subprocess.STDOUT,
                       text=True, timeout=3000, env=dict(os.environ, CARGO_NET_OFFLINE="true", CARGO_TARGET_DIR=os.path.join(root, "target")))
    compile_ok = r.returncode == 0
    bad_mods = {}
    if not compile_ok:
        for l in r.stdout.splitlines():
            m = re.match(r"src/g(\d+)(_trait|_parser)?\.rs:\d+:\d+: error(\[E\d+\])?: (.*)", l)
            if m:
                bad_mods.setdefault(int(m.group(1)), []).append(l[:300])
        if not bad_mods:
            raise ToolError("genprobe crate does not compile for a reason outside the generated modules:\n" + r.stdout[-3000:])
        for i, errs in bad_mods.items():
            flags = sets[i]
            rep.violation({"flags": flags, "par": ast_template(flags)[0], "what": "compile"},
                          f"generated code for feature set {flags} does not compile: {errs[0]} (+{len(errs)-1} more)")
    ran = 0
    nontrivial = 0
    if run and compile_ok:
        data = "".join(f"{x['i']}\t{x['text']}\n" for x in inputs)
        rr = subprocess.run([os.path.join(root, "target", "debug", "genprobe")], input=data, stdout=subprocess.PIPE, stderr=subprocess.PIPE,
                            text=True, timeout=600)
        lines = rr.stdout.splitlines()
        if len(lines) != len(inputs):
            raise ToolError(f"genprobe answered {len(lines)} of {len(inputs)} inputs: {rr.stderr[-1000:]}")
        for x, l in zip(inputs, lines):
            _, ok, count, dbg = l.split("\t", 3)
            toks = re.findall(r'text: "([^"]*)"', dbg)
            ran += 1
            nontrivial += len(x["exp"]) >= 3
            what = None
            if ok != "true":
                what = "sentence rejected"
            elif count != "1":
                what = f"start symbol action called {count} times"
            elif toks != x["exp"]:
                what = f"AST tokens {toks} != expected {x['exp']}"
            else:
                shape = x["shape"]
                fl = set(x["flags"])
                if "opt" in fl and "allclip" not in fl:
                    some = "Some(" in dbg
                    # the optional C is the only optional of the start production
                    if shape["has_c"] != some and "nest" not in fl:
                        what = f"optional part present={some}, occurred={shape['has_c']}"
            if what:
                rep.violation({"flags": x["flags"], "par": ast_template(x["flags"])[0], "what": "ast", "text": x["text"]},
                              f"{what} for input '{x['text']}' with features {x['flags']}: {dbg[:300]}")
    rc = rep.finish()
    cov = {"evaluations": len(sets) + ran, "distinct_nontrivial": len(mods) if not run else nontrivial,
           "rule": "feature sets of the AST-relevant PAR features (" + ", ".join(AST_FLAGS) + f"): every subset of <= {2 if tier == 'quick' else 3} features and every "
                   "subset missing at most one, enumerated by Gen_Flags.tla; each becomes a template grammar generated through the real "
                   "parol::build::Builder (the path a build.rs takes) into one crate with a stub user type shaped like `parol new`'s and path "
                   "dependencies on the repository's parol_runtime; `cargo build --offline` must succeed (C22); " +
                   ("the binary then parses the template's sentences: accepted, start action called exactly once, the tokens found in the "
                    "Debug rendering of the AST, in order, are the non-clipped tokens of the input, optional present iff it occurred (C23). "
                    if run else "") + "non-trivial: " + ("inputs with >= 3 AST tokens" if run else "grammar generated"),
           "samples": [{"flags": sets[0], "par": ast_template(sets[0])[0]}, {"flags": sets[-1]}],
           "modules_compiled": len(mods), "inputs_run": ran, "tlc_states": g["distinct"], "known_findings_seen": rep.known}
    write_evidence(prop, tier, "exploration", cov, time.time() - t0, len(rep.violations),
                   ["rustc decides 'compiles'; the TLA+ side contributes the enumeration of feature combinations (Gen_Flags.tla)",
                    "user types: one terminal-level user type with TryFrom<&Token>; %nt_type conversion types are not exercised"])
    return rc


def c22(prop, tier, replay):
    return genprobe(prop, tier, replay, run=False)


def c23(prop, tier, replay):
    return genprobe(prop, tier, replay, run=True)


REGISTRY.update({"C22": c22, "C23": c23})
