"""Shared machinery of /verif/check: TLC runner (MC / GEN / TV), harness build, evidence, findings."""
import json, os, re, subprocess, sys, time, hashlib, shutil
from concurrent.futures import ThreadPoolExecutor

ROOT = os.path.dirname(os.path.dirname(os.path.abspath(__file__)))
SPEC = os.path.join(ROOT, "spec")
BUILD = os.path.join(ROOT, ".build")
OUT = os.path.join(ROOT, "out")
EVID = os.path.join(ROOT, "evidence")
HARNESS = os.path.join(ROOT, "harness")
PV = os.path.join(BUILD, "harness", "debug", "pv")
# PV_REPO=<dir>: developer aid for trying the checks against a scratch copy of the repository (seeded
# changes) without touching /repo; registered commands never set it.  Everything such a run writes
# goes to separate directories.
ALT_REPO = os.environ.get("PV_REPO")
if ALT_REPO:
    OUT = os.path.join(ROOT, "out-alt")
    EVID = os.path.join(OUT, "evidence")
    BUILD = os.path.join(ROOT, ".build", "alt")
    PV = os.path.join(BUILD, "harness", "debug", "pv")
JAR_CP = "/opt/veriftools/tla/tla2tools.jar:/opt/veriftools/tla/CommunityModules-deps.jar"
NCPU = 16


class ToolError(Exception):
    pass


def seed():
    try:
        return int(os.environ.get("VERIF_SEED", "1"))
    except ValueError:
        return 1


def log(*a):
    print(*a, file=sys.stderr, flush=True)


def sh(cmd, cwd=None, timeout=None, env=None, stdout=None):
    e = dict(os.environ)
    if env:
        e.update(env)
    return subprocess.run(cmd, cwd=cwd, timeout=timeout, env=e, stdout=stdout or subprocess.PIPE,
                          stderr=subprocess.STDOUT, text=True)


# --------------------------------------------------------------------------------------------
# harness
# --------------------------------------------------------------------------------------------
def build_harness():
    t = time.time()
    lock = os.path.join(HARNESS, "Cargo.lock")
    if not os.path.exists(lock):
        shutil.copy("/repo/Cargo.lock", lock)
    hdir = HARNESS
    if ALT_REPO:
        hdir = os.path.join(BUILD, "harness-src")
        os.makedirs(hdir, exist_ok=True)
        sh(["rsync", "-a", "--delete", "--exclude", "target", HARNESS + "/", hdir + "/"])
        for fn in ("Cargo.toml", ".cargo/config.toml"):
            fp = os.path.join(hdir, fn)
            txt = open(fp).read().replace("/repo/", ALT_REPO.rstrip("/") + "/")
            txt = txt.replace('target-dir = "../.build/harness"', f'target-dir = "{BUILD}/harness"')
            open(fp, "w").write(txt)
    r = sh(["cargo", "build", "--offline", "--quiet"], cwd=hdir, timeout=1800,
           env={"CARGO_NET_OFFLINE": "true"})
    if r.returncode != 0:
        raise ToolError("harness build failed:\n" + r.stdout[-4000:])
    log(f"[build] harness ok in {time.time()-t:.1f}s")
    return PV


def build_ls():
    """parol-ls built from the current tree with the verification gate compiled in"""
    t = time.time()
    repo = (ALT_REPO or "/repo").rstrip("/")
    tdir = os.path.join(BUILD, "ls")
    r = sh(["cargo", "build", "-p", "parol-ls", "--offline", "--quiet", "--target-dir", tdir], cwd=repo, timeout=2400,
           env={"CARGO_NET_OFFLINE": "true", "RUSTFLAGS": "--cfg parol_verif --check-cfg cfg(parol_verif)",
                "CARGO_PROFILE_DEV_DEBUG": "0", "CARGO_PROFILE_DEV_OPT_LEVEL": "1"})
    if r.returncode != 0:
        raise ToolError("parol-ls build failed:\n" + r.stdout[-4000:])
    log(f"[build] parol-ls ok in {time.time()-t:.1f}s")
    return os.path.join(tdir, "debug", "parol-ls")


PV_CHUNK = int(os.environ.get("PV_CHUNK", "12000"))


def pv(args, timeout=3600, stdin=None, env=None):
    """runs the harness; long vector files are replayed in several processes one after the other (the
    dynamic run-time leaks the tables of every grammar it builds, so one process per 12 000 vectors
    bounds the memory) and the outputs are merged"""
    if len(args) >= 4 and args[0] == "replay":
        vec, outp = args[2], args[3]
        with open(vec) as f:
            n = sum(1 for _ in f)
        if n > PV_CHUNK:
            summ = {"vectors": 0, "evaluations": 0, "nontrivial": 0, "tags": {}, "mismatches": 0, "trace_events": 0}
            with open(vec) as f, open(outp + ".merge", "w") as mo, open(outp + ".trace.merge", "w") as mt:
                off = 0
                ci = 0
                while True:
                    lines = [l for _, l in zip(range(PV_CHUNK), f)]
                    if not lines:
                        break
                    cv, co = f"{vec}.chunk", f"{outp}.chunk"
                    with open(cv, "w") as g:
                        g.writelines(lines)
                    _pv1([args[0], args[1], cv, co] + args[4:], timeout, stdin, env)
                    for l in open(co):
                        r = json.loads(l)
                        if "summary" in r:
                            for k, v in r["summary"].items():
                                if k == "tags":
                                    for t, c in v.items():
                                        summ["tags"][t] = summ["tags"].get(t, 0) + c
                                else:
                                    summ[k] = summ.get(k, 0) + v
                        else:
                            if isinstance(r.get("case"), int):
                                r["case"] += off
                            mo.write(json.dumps(r) + "\n")
                    with open(co + ".trace") as t:
                        shutil.copyfileobj(t, mt)
                    for x in (cv, co, co + ".trace"):
                        os.remove(x)
                    off += len(lines)
                    ci += 1
                mo.write(json.dumps({"summary": summ}) + "\n")
            os.replace(outp + ".merge", outp)
            os.replace(outp + ".trace.merge", outp + ".trace")
            return ""
    return _pv1(args, timeout, stdin, env)


def _pv1(args, timeout=3600, stdin=None, env=None):
    e = dict(os.environ)
    if env:
        e.update({k: str(v) for k, v in env.items()})
    r = subprocess.run([PV] + args, cwd=ROOT, timeout=timeout, stdout=subprocess.PIPE,
                       stderr=subprocess.PIPE, text=True, input=stdin, env=e)
    if r.returncode != 0:
        raise ToolError(f"pv {' '.join(args[:3])} failed ({r.returncode}): {r.stderr[-3000:]}")
    return r.stdout


def read_ndjson(path):
    out = []
    with open(path) as f:
        for l in f:
            l = l.strip()
            if l:
                out.append(json.loads(l))
    return out


# --------------------------------------------------------------------------------------------
# TLC
# --------------------------------------------------------------------------------------------
def tla_value(v):
    if isinstance(v, bool):
        return "TRUE" if v else "FALSE"
    if isinstance(v, int):
        return str(v)
    if isinstance(v, str):
        return '"' + v + '"'
    if isinstance(v, (set, frozenset)):
        return "{" + ", ".join(tla_value(x) for x in sorted(v)) + "}"
    if isinstance(v, (list, tuple)):
        return "<<" + ", ".join(tla_value(x) for x in v) + ">>"
    raise ValueError(v)


def write_cfg(path, spec, constants, invariants=(), properties=(), constraint=None, view=None,
              postcondition=None, symmetry=None):
    with open(path, "w") as f:
        f.write(f"SPECIFICATION {spec}\n")
        if constants:
            f.write("CONSTANTS\n")
            for k, v in constants.items():
                f.write(f"  {k} = {tla_value(v)}\n")
        for i in invariants:
            f.write(f"INVARIANT {i}\n")
        for p in properties:
            f.write(f"PROPERTY {p}\n")
        if constraint:
            f.write(f"CONSTRAINT {constraint}\n")
        if view:
            f.write(f"VIEW {view}\n")
        if postcondition:
            f.write(f"POSTCONDITION {postcondition}\n")
        f.write("CHECK_DEADLOCK FALSE\n")


_STATS = re.compile(r"(\d+) states generated, (\d+) distinct states found, (\d+) states left")


def parse_tlc(out):
    """returns dict(states, distinct, ok, violated, error_text)"""
    m = None
    for m in _STATS.finditer(out):
        pass
    res = {"generated": int(m.group(1)) if m else 0, "distinct": int(m.group(2)) if m else 0,
           "ok": "Model checking completed. No error has been found." in out, "violated": None,
           "error_text": None}
    mv = re.search(r"Invariant (\w+) is violated", out)
    if mv:
        res["violated"] = mv.group(1)
    mp = re.search(r"(Temporal properties were violated|Action property \w+ is violated|is violated)", out)
    if mp and not res["violated"] and not res["ok"]:
        res["violated"] = mp.group(1)
    if not res["ok"] and not res["violated"]:
        i = out.find("Error:")
        res["error_text"] = out[i:i + 3000] if i >= 0 else out[-3000:]
    return res


def run_tlc(module, cfg_path, run_name, workers=1, timeout=3600, extra=(), env=None, java_opts=None,
            simulate=None):
    meta = os.path.join(BUILD, "tlc", run_name)
    shutil.rmtree(meta, ignore_errors=True)
    os.makedirs(meta, exist_ok=True)
    jopts = ["-XX:+UseParallelGC"] + (java_opts or ["-Xmx3g"])
    cmd = ["java"] + jopts + ["-cp", JAR_CP, "tlc2.TLC", "-workers", str(workers), "-metadir", meta,
                               "-cleanup", "-noGenerateSpecTE", "-config", cfg_path]
    if simulate:
        cmd += ["-simulate", simulate]
    cmd += list(extra) + [module + ".tla"]
    outp = os.path.join(BUILD, "tlc", run_name + ".out")
    t = time.time()
    try:
        with open(outp, "w") as fo:
            r = sh(cmd, cwd=SPEC, timeout=timeout, env=env, stdout=fo)
    except subprocess.TimeoutExpired:
        raise ToolError(f"TLC {module}/{run_name} timed out after {timeout}s")
    finally:
        shutil.rmtree(meta, ignore_errors=True)
    out = open(outp, errors="replace").read()
    return out, time.time() - t, r.returncode


def unquote_tlc_string(s):
    # TLC prints strings with \" and \\ escapes
    return json.loads('"' + s + '"')


_VEC = re.compile(r'^<<"VEC", "(.*)">>$')


def tlc_gen(module, constants, invariants, nshards, vec_path, timeout=3600, spec="ESpec",
            run_prefix=None, java_opts=None, simulate=None, depth=20, no_shard_consts=False):
    """GEN leg: run `nshards` TLC processes (one worker each, constants Shard/NShards), collect the
    VEC lines into vec_path.  Returns dict(generated, distinct, vectors, wall)."""
    run_prefix = run_prefix or module
    os.makedirs(os.path.join(BUILD, "tlc"), exist_ok=True)

    def one(sh_i):
        c = dict(constants)
        if not no_shard_consts:
            c["Shard"] = 0 if simulate else sh_i
            c["NShards"] = 1 if simulate else nshards
        cfgp = os.path.join(BUILD, "tlc", f"{run_prefix}_{sh_i}.cfg")
        write_cfg(cfgp, spec, c, invariants)
        if simulate:
            out, wall, rc = run_tlc(module, cfgp, f"{run_prefix}_{sh_i}", workers=1, timeout=timeout,
                                    java_opts=java_opts, simulate=f"num={simulate}",
                                    extra=["-depth", str(depth), "-seed", str(seed() * 1000 + sh_i)])
        else:
            out, wall, rc = run_tlc(module, cfgp, f"{run_prefix}_{sh_i}", workers=1, timeout=timeout,
                                    java_opts=java_opts)
        st = parse_tlc(out)
        if simulate:
            m = re.search(r"(\d+) states checked", out)
            st["ok"] = st["violated"] is None and ("Progress:" in out or m is not None) and "Error:" not in out
            st["generated"] = st["distinct"] = int(m.group(1)) if m else 0
        vecs = []
        for line in out.splitlines():
            m = _VEC.match(line)
            if m:
                vecs.append(unquote_tlc_string(m.group(1)))
        return st, vecs, out

    t = time.time()
    with ThreadPoolExecutor(max_workers=min(nshards, NCPU)) as ex:
        results = list(ex.map(one, range(nshards)))
    gen = dist = 0
    n = 0
    with open(vec_path, "w") as f:
        for st, vecs, out in results:
            if st["violated"]:
                return {"violated": st["violated"], "out": out, "generated": gen, "distinct": dist,
                        "vectors": n, "wall": time.time() - t}
            if not st["ok"]:
                raise ToolError(f"TLC {module} failed: {st['error_text']}")
            gen += st["generated"]
            dist += st["distinct"]
            for v in vecs:
                f.write(v + "\n")
                n += 1
    return {"violated": None, "generated": gen, "distinct": dist, "vectors": n, "wall": time.time() - t}


def tlc_mc(module, cfg_name, run_name=None, workers=NCPU, timeout=3600, coverage=True, java_opts=None,
           constants=None, spec=None, invariants=(), properties=(), constraint=None, view=None):
    """MC leg.  Either an existing cfg in spec/ (cfg_name) or generated from the keyword args."""
    run_name = run_name or module
    os.makedirs(os.path.join(BUILD, "tlc"), exist_ok=True)
    if cfg_name:
        cfgp = os.path.join(SPEC, cfg_name)
    else:
        cfgp = os.path.join(BUILD, "tlc", run_name + ".cfg")
        write_cfg(cfgp, spec, constants or {}, invariants, properties, constraint, view)
    extra = ["-coverage", "1"] if coverage else []
    out, wall, rc = run_tlc(module, cfgp, run_name, workers=workers, timeout=timeout, extra=extra,
                            java_opts=java_opts)
    st = parse_tlc(out)
    st["wall"] = wall
    st["out"] = out
    st["actions"] = parse_coverage(out)
    return st


_COV = re.compile(r"^<(\w+) line \d+, col \d+ to line \d+, col \d+ of module (\w+)>: (\d+):(\d+)", re.M)


def parse_coverage(out):
    acts = {}
    for m in _COV.finditer(out):
        acts[m.group(1)] = {"distinct": int(m.group(3)), "taken": int(m.group(4))}
    return acts


def tlc_trace(module, trace_path, run_name, timeout=1800, constants=None, spec="TraceSpec",
              invariants=(), post="TraceAccepted", extra_env=None):
    """TV leg: validate one ndjson trace file against Trace module.  Returns dict(ok, unmatched, out)."""
    cfgp = os.path.join(BUILD, "tlc", run_name + ".cfg")
    os.makedirs(os.path.join(BUILD, "tlc"), exist_ok=True)
    write_cfg(cfgp, spec, constants or {}, invariants, postcondition=post)
    env = {"TRACE": trace_path}
    if extra_env:
        env.update(extra_env)
    out, wall, rc = run_tlc(module, cfgp, run_name, workers=1, timeout=timeout, env=env,
                            java_opts=["-Xss1g", "-Xmx4g", "-Dtlc2.tool.queue.IStateQueue=StateDeque"])
    st = parse_tlc(out)
    um = re.search(r'<<"UNMATCHED", (\d+), "(.*)">>', out)
    res = {"ok": st["ok"] and not um, "generated": st["generated"], "distinct": st["distinct"],
           "wall": wall, "out": out, "unmatched": None, "violated": st["violated"],
           "error_text": st["error_text"]}
    if um:
        res["unmatched"] = (int(um.group(1)), unquote_tlc_string(um.group(2)))
    res["rejects"] = [(int(m.group(1)), unquote_tlc_string(m.group(2)))
                      for m in re.finditer(r'^<<"REJECT", (\d+), "(.*)">>$', out, re.M)]
    return res


def sany(module):
    r = sh(["java", "-cp", JAR_CP, "tla2sany.SANY", module + ".tla"], cwd=SPEC, timeout=300)
    ok = r.returncode == 0 and "Semantic errors" not in r.stdout and "Parsing or semantic analysis failed" not in r.stdout \
        and "Fatal errors" not in r.stdout and "*** Errors" not in r.stdout
    return ok, r.stdout


# --------------------------------------------------------------------------------------------
# findings / violations / evidence
# --------------------------------------------------------------------------------------------
def load_findings():
    p = os.path.join(ROOT, "known_findings.json")
    if not os.path.exists(p):
        return []
    return json.load(open(p))["findings"]


def canon(v):
    return json.dumps(v, sort_keys=True, separators=(",", ":"))


class Reporter:
    """Collects violations of one property run; separates known findings; writes replay files."""

    def __init__(self, prop, tier):
        self.prop = prop
        self.tier = tier
        self.violations = []   # (replay_path, summary)
        self.known = {}        # finding id -> count
        self.findings = [f for f in load_findings() if f["property"] == prop and f.get("status") == "known"]
        os.makedirs(os.path.join(OUT, "replay"), exist_ok=True)

    def match_known(self, case):
        """case: dict with a 'key' (canonical identification of the failing input/site)"""
        import findings_pred
        for f in self.findings:
            if f.get("predicate"):
                try:
                    if findings_pred.PREDICATES[f["predicate"]](case):
                        return f
                except Exception as ex:   # a predicate that cannot judge the case does not match it
                    log(f"[findings] predicate {f['predicate']} failed on a case: {ex}")
                continue
            m = f["match"]
            if m and all(canon(case.get(k)) == canon(v) for k, v in m.items()):
                return f
        return None

    def violation(self, case, summary):
        f = self.match_known(case)
        if f:
            self.known[f["id"]] = self.known.get(f["id"], 0) + 1
            return False
        h = hashlib.sha1(canon(case).encode()).hexdigest()[:10]
        path = os.path.join(OUT, "replay", f"{self.prop}-{h}.json")
        with open(path, "w") as fo:
            json.dump({"property": self.prop, "summary": summary, "case": case}, fo, indent=1)
        self.violations.append((path, summary))
        return True

    def finish(self):
        for f in self.findings:
            if self.known.get(f["id"]):
                print(f"KNOWN-FINDING: property={self.prop} {f['id']}: {f['text']} (seen {self.known[f['id']]}x)")
        shown = 0
        for path, summary in self.violations:
            if shown < 20:
                print(f"VIOLATION property={self.prop} replay={path}")
                log("   " + summary[:400])
            shown += 1
        if len(self.violations) > 20:
            log(f"   ... {len(self.violations)-20} more violations")
        return 1 if self.violations else 0


def write_evidence(prop, tier, level, coverage, wall, violations, assumptions=()):
    os.makedirs(EVID, exist_ok=True)
    ev = {"property_id": prop, "tier": tier, "seed": seed(), "level": level, "coverage": coverage,
          "assumptions": list(assumptions), "wall_s": round(wall, 2), "violations": violations}
    with open(os.path.join(EVID, prop + ".json"), "w") as f:
        json.dump(ev, f, indent=1, sort_keys=True)
        f.write("\n")
