"""Registry: property id -> runner(prop, tier, replay) -> exit code."""
import p_bnf

REGISTRY = {}
REGISTRY.update(p_bnf.REGISTRY)
