"""Registry: property id -> runner(prop, tier, replay) -> exit code."""
import p_bnf
import p_ll
import p_xform
import p_misc
import p_scan
import p_ls
import p_gen

REGISTRY = {}
REGISTRY.update(p_bnf.REGISTRY)
REGISTRY.update(p_ll.REGISTRY)
REGISTRY.update(p_xform.REGISTRY)
REGISTRY.update(p_misc.REGISTRY)
REGISTRY.update(p_scan.REGISTRY)
REGISTRY.update(p_ls.REGISTRY)
REGISTRY.update(p_gen.REGISTRY)
