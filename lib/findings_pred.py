"""Predicates that identify the specific failing inputs of known findings (known_findings.json,
field "predicate").  A predicate gets the violation case (dict) and returns True when the case is
exactly the listed finding; anything else is reported as a new violation."""
import json


def _text(case):
    sub = {"<e>": "é", "<u>": "😀"}
    return "".join(sub.get(c, c) for c in case.get("text", []))


def _mismatch(case):
    """expected/actual token of the first difference, from the summary stored with the case"""
    return case.get("expected_token"), case.get("actual_token")


def c16_newline_not_error(case):
    """%auto_newline_off without %allow_unmatched: a line feed is a skipped gap instead of the error token"""
    d = (case.get("defs") or {}).get(case.get("cfg")) or {}
    if not any((not m["nl"]) and (not m["unmatched"]) for m in d.get("modes", [])):
        return False
    if case.get("what") == "parse-verdict":
        # the parse succeeds although the stream should contain an error token: explained by this
        # finding only if every expected error token is a lone line feed
        chars = case.get("text", [])
        errs = [t for t in case["vec"]["toks"] if t["ty"] == 5 + len(d["terms"])]
        return bool(errs) and all(chars[t["s"]:t["e"]] == ["\n"] for t in errs)
    e, a = _mismatch(case)
    if not e or not a:
        return False
    t = _text(case)
    return e.get("ty") == 5 + len(d["terms"]) and t[e["s"]:e["e"]] == "\n" and a.get("ty") == 65534 and a.get("s") == e["s"]


def c14_scnr2_restore_last_char(case):
    """scnr2's CharIterWithPosition::restore_state does not restore last_char: after a match attempt that read
    past a line feed and was rolled back (an unterminated block comment), the following token is put on the next line"""
    d = (case.get("defs") or {}).get(case.get("cfg")) or {}
    e, a = _mismatch(case)
    if not e or not a:
        return False
    if any(e.get(k) != a.get(k) for k in ("ty", "s", "e", "skip", "text")):
        return False
    t = _text(case)
    for m in d.get("modes", []):
        for bc in m.get("bc", []):
            start, end = "".join(bc[0]), "".join(bc[1])
            p = t.find(start)
            while p >= 0:
                rest = t[p + len(start):]
                if end not in rest and "\n" in rest and p <= e["s"]:
                    return True
                p = t.find(start, p + 1)
            # second trigger: behind a complete C-style comment the dedicated expression tries to go on with `[^*]/`;
            # for '*/' '/' LF it reads the line feed, fails and is rolled back to the end of the comment
            if (start, end) == ("/*", "*/") and t[e["s"] - 2:e["s"]] == "*/" and t[e["s"]:e["s"] + 2] == "/\n":
                return True
    return False


def c15_three_atom_end(case):
    """block comment end delimiters of three characters: the generated expression ([^a]|a[^b]|ab[^c])*abc lets `a[^b]`
    swallow the first character of the end delimiter, so a comment whose end is preceded by its own first character is missed"""
    d = (case.get("defs") or {}).get(case.get("cfg")) or {}
    if not any(len(bc[1]) == 3 for m in d.get("modes", []) for bc in m.get("bc", [])):
        return False
    e, a = _mismatch(case)
    if not e:
        return False
    t = _text(case)
    # the expected comment's end delimiter is directly preceded by the delimiter's first character
    if e.get("ty") != 4:
        return False
    for m in d["modes"]:
        for bc in m["bc"]:
            end = "".join(bc[1])
            if len(bc[1]) == 3 and t[e["s"]:e["e"]].endswith(end[0] + end):
                return True
    return False


def c33_terminal_name_self(case):
    """the only invalid name is the entry 'Self' of the TERMINAL_NAMES string table"""
    ev = case.get("tv_event") or {}
    if ev.get("why") != ["terminals_invalid"]:
        return False
    par = (ev.get("vec") or {}).get("par", "")
    # the grammar has a terminal whose text is Self/self and no other keyword-cased terminal name can arise
    return '"Self"' in par or "'Self'" in par or '"self"' in par or "'self'" in par


def c26_lalry_unreachable(case):
    """lalry 0.1.0 (external crate) runs into unreachable!() in its LALR(1) table construction for some grammars that are
    not LALR(1) (conflicts involving the accept action / end of input)"""
    a = case.get("actual") or {}
    out = a.get("outcome", "") if isinstance(a, dict) else str(a)
    return "entered unreachable code" in out and "lalry-0.1.0/src/lib.rs" in out


def c19_lr_cyclic_runaway(case):
    """an LR table whose conflicts were resolved (ambiguous grammar with empty productions, cyclic grammar): the parser
    reduces empty productions forever"""
    a = case.get("actual") or {}
    return str(case.get("what", "")).startswith("runs-away/LR") and isinstance(a, dict) and a.get("resolved_conflicts") is True


def c29_thread_publish_race(case):
    """the observed history is exactly what the as-coded model of LsDiag.tla predicts, and it ends with diagnostics that
    are not the final text's: a background thread published after a newer edit's result, or before its own `ok`"""
    return case.get("why") == ["final_diagnostics_not_current"] and case.get("published") == case.get("model")


PREDICATES = {f.__name__: f for f in (c29_thread_publish_race, c19_lr_cyclic_runaway, c26_lalry_unreachable, c33_terminal_name_self, c16_newline_not_error, c14_scnr2_restore_last_char, c15_three_atom_end)}


def c27_two_comments_in_prolog_declaration(case):
    """formatting twice differs when two comments were inserted between tokens of the prolog (before '%%')"""
    g = case.get("gap") or {}
    if case.get("why") != ["not idempotent"] or not isinstance(g.get("gap"), list):
        return False
    text = case.get("text") or ""
    head = text.split("%%")[0]
    return head.count("c1") == 1 and head.count("c2") == 1


PREDICATES["c27_two_comments_in_prolog_declaration"] = c27_two_comments_in_prolog_declaration


def c15_cstyle_end_followed_by_slash(case):
    """C-style comments: the dedicated expression lets `[^*]/` consume '//' behind a '*/'"""
    d = (case.get("defs") or {}).get(case.get("cfg")) or {}
    if not any(bc[0] == ["/", "*"] and bc[1] == ["*", "/"] for m in d.get("modes", []) for bc in m.get("bc", [])):
        return False
    e, a = _mismatch(case)
    if not e or not a:
        return False
    t = _text(case)
    return e.get("ty") == 4 and a.get("ty") == 4 and a.get("s") == e.get("s") and a.get("e", 0) > e.get("e", 0) \
        and t[e["e"]:e["e"] + 1] == "/" and t[e["e"] - 2:e["e"]] == "*/"


PREDICATES["c15_cstyle_end_followed_by_slash"] = c15_cstyle_end_followed_by_slash
