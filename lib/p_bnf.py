"""Properties decided over the universe of small BNF grammars (GEN leg from GrammarEnum)."""
import os, json, time
import pvlib
from pvlib import Reporter, write_evidence, tlc_gen, pv, read_ndjson, log, OUT, ToolError

U_QUICK = {"NTs": {"S", "A"}, "Ts": {"a", "b"}, "MaxProds": 3, "MaxRhs": 2, "MinProds": 1, "Ordered": True}
U_THOROUGH = {"NTs": {"S", "A", "B"}, "Ts": {"a", "b"}, "MaxProds": 4, "MaxRhs": 2, "MinProds": 1, "Ordered": True}
# random walks (tlc -simulate) over a larger universe: R of DESIGN.md section 4
# many non-terminals, short right-hand sides: long dependency chains / cycles (C11)
R_CHAIN = {"NTs": {"S", "A", "B", "C", "D", "E"}, "Ts": {"a"}, "MaxProds": 8, "MaxRhs": 2, "MinProds": 5, "Ordered": False}
R_WIDE = {"NTs": {"S", "A", "B", "C"}, "Ts": {"a", "b"}, "MaxProds": 7, "MaxRhs": 3, "MinProds": 3, "Ordered": False}


def universe(tier):
    return dict(U_QUICK if tier == "quick" else U_THOROUGH)


def gen_and_replay(prop, tier, module, kind, spaces, invariants, rule, level="model_checking",
                   timeout=3000, assumptions=(), case_key=None, replay=None, extra_cov=None, pv_env=None):
    """spaces: list of dicts {constants, simulate (None = exhaustive | number of random walks), nshards, depth}"""
    t0 = time.time()
    rep = Reporter(prop, tier)
    vec_path = os.path.join(OUT, f"{prop}_{tier}.vec.ndjson")
    tot = {"generated": 0, "distinct": 0, "vectors": 0, "wall": 0.0}
    space_cov = []
    if replay:
        case = json.load(open(replay))["case"]
        with open(vec_path, "w") as f:
            f.write(json.dumps(case["vec"]) + "\n")
        tot["vectors"] = 1
    else:
        with open(vec_path, "w") as fall:
            for si, sp in enumerate(spaces):
                part = vec_path + f".{si}"
                gen = tlc_gen(sp.get("module", module), sp["constants"], sp.get("invariants", invariants), sp.get("nshards", 16), part, timeout=timeout,
                              run_prefix=f"{prop}_{tier}_{si}", simulate=sp.get("simulate"), depth=sp.get("depth", 20),
                              **({"spec": sp["spec"]} if sp.get("spec") else {}))
                if gen["violated"]:
                    # a specification-level invariant failed: the spec itself is inconsistent -> tool error,
                    # not a verdict about parol
                    raise ToolError(f"spec invariant {gen['violated']} violated in {module}:\n" + gen["out"][-3000:])
                if gen["vectors"] == 0:
                    raise ToolError(f"{module}: no vectors generated in space {si} (vacuous run)")
                seen = set()
                with open(part) as f:
                    for li, l in enumerate(f):
                        if l in seen or li % sp.get("every", 1):
                            continue
                        seen.add(l)
                        fall.write(l)
                os.remove(part)
                for k in ("generated", "distinct", "wall"):
                    tot[k] += gen[k]
                tot["vectors"] += len(seen)
                space_cov.append({"constants": {k: (sorted(v) if isinstance(v, (set, frozenset)) else v)
                                                for k, v in sp["constants"].items()},
                                  "mode": "exhaustive" if not sp.get("simulate") else f"tlc -simulate num={sp['simulate']} x {sp.get('nshards', 16)} seeds",
                                  "states": gen["distinct"], "vectors": len(seen)})
    outp = os.path.join(OUT, f"{prop}_{tier}.replay.ndjson")
    pv(["replay", kind, vec_path, outp], timeout=timeout, env=pv_env)
    res = read_ndjson(outp)
    summary = res[-1]["summary"]
    samples = []
    for r in res[:-1]:
        if "tool_error" in r:
            raise ToolError(r["tool_error"])
        key = case_key(r) if case_key else {"what": r["mismatch"]["what"]}
        key["vec"] = r["vec"]
        rep.violation(key, f"{r['mismatch']['what']}: expected {json.dumps(r['mismatch']['expected'])[:300]} got {json.dumps(r['mismatch']['actual'])[:300]} on {json.dumps(r['vec'])[:400]}")
    with open(vec_path) as f:
        for i, l in enumerate(f):
            if i in (0, summary["vectors"] // 2, summary["vectors"] - 1):
                samples.append(json.loads(l))
    rc = rep.finish()
    cov = {"states": max(tot["distinct"], 1), "transitions": max(tot["generated"], 1),
           "traces_validated_against_impl": summary["vectors"], "samples": samples,
           "evaluations": summary["evaluations"], "distinct_nontrivial": summary["nontrivial"],
           "rule": rule, "tags": summary["tags"],
           "exhaustive": all(not sp.get("simulate") for sp in spaces),
           "spaces": space_cov,
           "known_findings_seen": rep.known, "tlc_wall_s": round(tot["wall"], 1)}
    if extra_cov:
        cov.update(extra_cov)
    write_evidence(prop, tier, level, cov, time.time() - t0, len(rep.violations), assumptions)
    return rc


def with_(c, **kw):
    d = dict(c)
    d.update(kw)
    return d


def spaces(tier, extra, wide=None, nsim=None):
    """exhaustive universe of the tier + random walks over the wide universe"""
    nsim = nsim if nsim is not None else (25 if tier == "quick" else 1500)
    # the random walks only emit vectors; the specification-level lemmas are checked exhaustively
    return [{"constants": with_(universe(tier), **extra)},
            {"constants": with_(wide or R_WIDE, **extra), "simulate": nsim, "nshards": 16, "depth": 12,
             "invariants": ["Emit"]}]


def c11(prop, tier, replay):
    return gen_and_replay(
        prop, tier, "Gen_WF", "wf", spaces(tier, {"LangN": 4}, wide=R_CHAIN), ["Emit", "DefsAgree"],
        rule="every set of <= MaxProds productions over NTs/Ts with |rhs| <= MaxRhs (TLC enumerates the "
             "GrammarEnum machine exhaustively); each grammar is replayed in given and reversed production "
             "order, as a directly built Cfg and through PAR text, for LL and LALR; a vector is non-trivial "
             "when at least one of nullable/non-productive/unreachable/left-recursive is non-empty or the "
             "grammar is well-formed (tags count each class)",
        assumptions=["set functions are called only on grammars whose start symbol has a production "
                     "(the front end cannot hand them any other grammar without first rejecting it)"],
        replay=replay)


LL_EXTRA = {"LangN": 4, "MaxK": 3}


def c05(prop, tier, replay):
    return gen_and_replay(
        prop, tier, "Gen_LL", "c05", spaces(tier, LL_EXTRA), ["Emit", "Lemmas"],
        rule="every well-formed, left-recursion-free grammar of the universe (TLC filters with WellFormedLL); "
             "for K = 1..MaxK and both production orders the harness compares calculate_lookahead_dfas (accept iff "
             "StrongLL(G,K), automaton k = MinK), decidable() per non-terminal (= MinK or failure), the set of "
             "non-terminals failing at K (= the spec's conflicting set) and every explain_conflicts pair (must be two "
             "productions of that non-terminal whose lookahead sets intersect at K); non-trivial: some non-terminal "
             "needs k>=1 (tags: needs_k=1, needs_k>=2, not_LL(maxK))",
        assumptions=["GrammarAnalysisError::MaxKExceeded carries no non-terminal name; 'names a non-terminal' is "
                     "observed through decidable()/explain_conflicts(), the functions the error report uses"],
        replay=replay)


def cache_orders(tier):
    """request orders from the CacheOrders machine"""
    path = os.path.join(OUT, f"cache_orders_{tier}.ndjson")
    g = tlc_gen("CacheOrders", {"MaxK": 3, "MaxReq": 3 if tier == "quick" else 4}, ["Emit", "DownwardClosed"], 1,
                path, spec="Spec", run_prefix=f"cacheorders_{tier}", no_shard_consts=True)
    if g["violated"]:
        raise ToolError("CacheOrders invariant violated: " + str(g["violated"]))
    orders = read_ndjson(path)
    op = os.path.join(OUT, f"cache_orders_{tier}.json")
    json.dump(orders, open(op, "w"))
    return op, g, len(orders)


def c06(prop, tier, replay):
    op, g, n = cache_orders(tier)
    return gen_and_replay(
        prop, tier, "Gen_LL", "c06", spaces(tier, LL_EXTRA), ["Emit", "SolverLemmas"],
        rule="same grammar universe as C05; TLC also checks that the seeded Jacobi chain (FIRST) and the seeded "
             "Gauss-Seidel chain (FOLLOW) of Solvers.tla reach the least fixpoints for every such grammar; per grammar "
             "and production order the harness replays ascending, descending and PV_ORDERS_PER request orders taken from "
             f"the {n} orders the CacheOrders machine emits on one FirstCache/FollowCache pair and compares FIRST_k per "
             "non-terminal and production and FOLLOW_k per non-terminal after each request (k>=1); non-trivial: every "
             "vector (tags: epsilon_in_first, two_nts_in_rhs)",
        assumptions=["k = 0 requests are issued (they seed the chains) but their answers are not compared: FIRST_0/FOLLOW_0 "
                     "carry no lookahead information"],
        replay=replay, pv_env={"PV_ORDERS": op, "PV_ORDERS_PER": 4 if tier == "quick" else 8},
        extra_cov={"cache_orders": n, "cache_machine_states": g["distinct"]})


def c07(prop, tier, replay):
    return gen_and_replay(
        prop, tier, "Gen_LL", "c07", spaces(tier, LL_EXTRA) + [
            {"module": "Gen_FamLL", "constants": {"NTerm": 2, "L": 3, "LangN": 3, "MaxK": 3}, "invariants": ["Emit", "MinKIsSeparation"],
             "nshards": 9, "every": 4 if tier == "quick" else 1, "spec": "Spec"}], ["Emit"],
        rule="same grammar universe as C05 (those that are strong LL(K), K<=3) plus the lookahead-set families of FamEnum.tla "
             "(S: X | Y over all assignments of {a,b}^3: arbitrary two-coloured tries, k = 1..3); per non-terminal TLC's lookahead sets "
             "LaSet(G,k,p) at the minimal k are the expected language of the automaton; the harness walks the unminimised "
             "LookaheadDFA and the compiled (minimised) automaton of the export model on EVERY string over the terminals "
             "(optionally closed by $) up to length k+1: the state reached predicts p iff the string is in LaSet(p), "
             "identically before and after minimisation; compiled transitions strictly sorted by (from, terminal), states "
             "dense, one production per state, k = minimal k; non-trivial: grammar accepted (tag k>=2: some automaton needs k>=2)",
        replay=replay)


REGISTRY = {"C11": c11, "C05": c05, "C06": c06, "C07": c07}
