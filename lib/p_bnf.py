"""Properties decided over the universe of small BNF grammars (GEN leg from GrammarEnum)."""
import os, json, time
import pvlib
from pvlib import Reporter, write_evidence, tlc_gen, pv, read_ndjson, log, OUT, ToolError

U_QUICK = {"NTs": {"S", "A"}, "Ts": {"a", "b"}, "MaxProds": 3, "MaxRhs": 2}
U_THOROUGH = {"NTs": {"S", "A", "B"}, "Ts": {"a", "b"}, "MaxProds": 4, "MaxRhs": 2}


def universe(tier):
    return dict(U_QUICK if tier == "quick" else U_THOROUGH)


def gen_and_replay(prop, tier, module, kind, constants, invariants, rule, level="model_checking",
                   nshards=16, timeout=3000, assumptions=(), case_key=None, replay=None, extra_cov=None):
    t0 = time.time()
    rep = Reporter(prop, tier)
    vec_path = os.path.join(OUT, f"{prop}_{tier}.vec.ndjson")
    if replay:
        case = json.load(open(replay))["case"]
        with open(vec_path, "w") as f:
            f.write(json.dumps(case["vec"]) + "\n")
        gen = {"generated": 0, "distinct": 0, "vectors": 1, "wall": 0, "violated": None}
    else:
        gen = tlc_gen(module, constants, invariants, nshards, vec_path, timeout=timeout, run_prefix=f"{prop}_{tier}")
    if gen["violated"]:
        # a specification-level invariant failed: the spec itself is inconsistent -> tool error,
        # not a verdict about parol
        raise ToolError(f"spec invariant {gen['violated']} violated in {module}:\n" + gen["out"][-3000:])
    if gen["vectors"] == 0:
        raise ToolError(f"{module}: no vectors generated (vacuous run)")
    outp = os.path.join(OUT, f"{prop}_{tier}.replay.ndjson")
    pv(["replay", kind, vec_path, outp], timeout=timeout)
    res = read_ndjson(outp)
    summary = res[-1]["summary"]
    samples = []
    for r in res[:-1]:
        if "tool_error" in r:
            raise ToolError(r["tool_error"])
        key = case_key(r) if case_key else {"vec": r["vec"], "what": r["mismatch"]["what"]}
        key["vec"] = r["vec"]
        rep.violation(key, f"{r['mismatch']['what']}: expected {json.dumps(r['mismatch']['expected'])[:300]} got {json.dumps(r['mismatch']['actual'])[:300]} on {json.dumps(r['vec'])[:400]}")
    with open(vec_path) as f:
        for i, l in enumerate(f):
            if i in (0, summary["vectors"] // 2, summary["vectors"] - 1):
                samples.append(json.loads(l))
    rc = rep.finish()
    cov = {"states": gen["distinct"], "transitions": gen["generated"],
           "traces_validated_against_impl": summary["vectors"], "samples": samples,
           "evaluations": summary["evaluations"], "distinct_nontrivial": summary["nontrivial"],
           "rule": rule, "tags": summary["tags"], "exhaustive": True,
           "spec_constants": {k: (sorted(v) if isinstance(v, (set, frozenset)) else v) for k, v in constants.items()},
           "known_findings_seen": rep.known, "tlc_wall_s": round(gen["wall"], 1)}
    if extra_cov:
        cov.update(extra_cov)
    write_evidence(prop, tier, level, cov, time.time() - t0, len(rep.violations), assumptions)
    return rc


def c11(prop, tier, replay):
    c = universe(tier)
    c["LangN"] = 4
    return gen_and_replay(
        prop, tier, "Gen_WF", "wf", c, ["Emit", "DefsAgree"],
        rule="every set of <= MaxProds productions over NTs/Ts with |rhs| <= MaxRhs (TLC enumerates the "
             "GrammarEnum machine exhaustively); each grammar is replayed in given and reversed production "
             "order, as a directly built Cfg and through PAR text, for LL and LALR; a vector is non-trivial "
             "when at least one of nullable/non-productive/unreachable/left-recursive is non-empty or the "
             "grammar is well-formed (tags count each class)",
        assumptions=["set functions are called only on grammars whose start symbol has a production "
                     "(the front end cannot hand them any other grammar without first rejecting it)"],
        replay=replay)


REGISTRY = {"C11": c11}
