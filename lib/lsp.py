"""Minimal LSP client over stdio for driving the real parol-ls binary."""
import json, os, subprocess, threading, time, queue


class LsSession:
    def __init__(self, binary, schedule=None, init_options=None):
        env = dict(os.environ)
        if schedule is not None:
            env["PAROL_LS_VERIF_SCHEDULE"] = ",".join(schedule)
        env["RUST_BACKTRACE"] = "0"
        self.p = subprocess.Popen([binary, "--stdio"], stdin=subprocess.PIPE, stdout=subprocess.PIPE,
                                  stderr=subprocess.PIPE, env=env)
        self.msgs = queue.Queue()
        self.all = []
        self.stderr_lines = []
        self.noise = []
        self.gate_ends = 0
        self.lock = threading.Lock()
        self.id = 0
        threading.Thread(target=self._read_out, daemon=True).start()
        threading.Thread(target=self._read_err, daemon=True).start()
        r = self.request("initialize", {"processId": None, "rootUri": None, "capabilities": {},
                                        "initializationOptions": init_options or {}})
        if r is None:
            raise RuntimeError("no initialize response")
        self.notify("initialized", {})

    def _read_out(self):
        f = self.p.stdout
        while True:
            # resynchronise on the next header: the server is known to print plain text to its
            # standard output in some situations (resolved LALR(1) conflicts are println!-ed)
            n = None
            while n is None:
                line = f.readline()
                if not line:
                    self.msgs.put(None)
                    return
                i = line.lower().find(b"content-length:")
                if i >= 0:
                    try:
                        n = int(line[i + 15:].strip())
                    except ValueError:
                        n = None
                    if i > 0 or n is None:
                        with self.lock:
                            self.noise.append(line[:i].decode(errors="replace"))
                elif line.strip():
                    with self.lock:
                        self.noise.append(line.decode(errors="replace"))
            # rest of the header
            while True:
                line = f.readline()
                if not line or line in (b"\r\n", b"\n"):
                    break
            body = f.read(n)
            try:
                m = json.loads(body)
            except Exception:
                continue
            with self.lock:
                self.all.append(m)
            self.msgs.put(m)

    def _read_err(self):
        for line in self.p.stderr:
            line = line.decode(errors="replace").rstrip()
            with self.lock:
                self.stderr_lines.append(line)
                if line.startswith("VERIF-GATE end"):
                    self.gate_ends += 1

    def _send(self, obj):
        body = json.dumps(obj).encode()
        try:
            self.p.stdin.write(b"Content-Length: %d\r\n\r\n" % len(body) + body)
            self.p.stdin.flush()
            return True
        except (BrokenPipeError, OSError):
            return False

    def notify(self, method, params):
        return self._send({"jsonrpc": "2.0", "method": method, "params": params})

    def request(self, method, params, timeout=20):
        """returns the response message, or None if the server died / did not answer"""
        self.id += 1
        rid = self.id
        if not self._send({"jsonrpc": "2.0", "id": rid, "method": method, "params": params}):
            return None
        t0 = time.time()
        while time.time() - t0 < timeout:
            try:
                m = self.msgs.get(timeout=0.2)
            except queue.Empty:
                if self.p.poll() is not None:
                    return None
                continue
            if m is None:
                return None
            if m.get("id") == rid and "method" not in m:
                return m
        return None

    def alive(self):
        return self.p.poll() is None

    def publishes(self, uri=None):
        with self.lock:
            return [m["params"] for m in self.all if m.get("method") == "textDocument/publishDiagnostics"
                    and (uri is None or m["params"].get("uri") == uri)]

    def wait_gate(self, n, timeout=30):
        t0 = time.time()
        while time.time() - t0 < timeout:
            with self.lock:
                if self.gate_ends >= n:
                    return True
            if self.p.poll() is not None:
                return False
            time.sleep(0.01)
        return False

    def wait_quiet(self, quiet=0.4, timeout=20):
        """until no message arrived for `quiet` seconds"""
        t0 = time.time()
        last = len(self.all)
        tl = time.time()
        while time.time() - t0 < timeout:
            time.sleep(0.05)
            with self.lock:
                n = len(self.all)
            if n != last:
                last = n
                tl = time.time()
            elif time.time() - tl >= quiet:
                return True
        return False

    def close(self):
        try:
            self.request("shutdown", None, timeout=2)
            self.notify("exit", None)
        except Exception:
            pass
        try:
            self.p.wait(timeout=2)
        except Exception:
            self.p.kill()
        return self.p.returncode

    def panic_text(self):
        with self.lock:
            for i, l in enumerate(self.stderr_lines):
                if "panicked at" in l:
                    return " | ".join(self.stderr_lines[i:i + 3])
        return None
