"""TV leg: split an ndjson trace into chunks at case boundaries, validate every chunk with a TLC trace
specification in parallel; on a rejection report the case, cut it out and re-validate the rest."""
import os, json, time
from concurrent.futures import ThreadPoolExecutor
import pvlib
from pvlib import tlc_trace, ToolError, OUT, log


def split_cases(trace_path, boundary="grammar"):
    """returns list of cases; a case is a list of raw lines starting with a boundary event"""
    cases = []
    cur = None
    key = '"ev":"' + boundary + '"'
    with open(trace_path) as f:
        for line in f:
            if not line.strip():
                continue
            if key in line[:200] or key in line:
                # boundary events are recognised by their ev field
                try:
                    is_b = json.loads(line).get("ev") == boundary
                except json.JSONDecodeError:
                    is_b = False
                if is_b:
                    cur = []
                    cases.append(cur)
            if cur is None:
                cur = []
                cases.append(cur)
            cur.append(line if line.endswith("\n") else line + "\n")
    return cases


def validate(prop, module, trace_path, rep, describe_case, nchunks=16, boundary="grammar",
             invariants=(), timeout=1500, max_retries=6, run_prefix=None):
    """describe_case(first_event_json, failing_event_json, run_event_json) -> (case_key_dict, summary)"""
    t0 = time.time()
    run_prefix = run_prefix or f"{prop}_tv"
    cases = split_cases(trace_path, boundary)
    if not cases:
        raise ToolError("empty trace: nothing to validate (vacuous run)")
    total_events = sum(len(c) for c in cases)
    # balance chunks by number of events
    nchunks = max(1, min(nchunks, len(cases)))
    chunks = [[] for _ in range(nchunks)]
    sizes = [0] * nchunks
    for c in sorted(cases, key=len, reverse=True):
        i = sizes.index(min(sizes))
        chunks[i].append(c)
        sizes[i] += len(c)

    def one(ci):
        mycases = list(chunks[ci])
        states = 0
        validated_cases = 0
        rejected = []
        tries = 0
        while mycases and tries <= max_retries:
            tries += 1
            path = os.path.join(OUT, f"{run_prefix}_chunk{ci}.ndjson")
            with open(path, "w") as f:
                for c in mycases:
                    f.writelines(c)
            r = tlc_trace(module, path, f"{run_prefix}_{ci}", timeout=timeout, invariants=invariants)
            states += r["distinct"]
            for (ln, evj) in r.get("rejects", []):
                ev = json.loads(evj)
                rejected.append((ev, ev, None, []))
            if r["ok"]:
                validated_cases += len(mycases) - len(r.get("rejects", []))
                break
            if r["unmatched"] is None:
                if r["violated"]:
                    # an invariant of the trace specification failed on a validated prefix
                    raise ToolError(f"{module}: invariant {r['violated']} violated during trace validation:\n" + r["out"][-2500:])
                raise ToolError(f"{module}: TLC failed on chunk {ci}: {r['error_text']}")
            line_no, ev = r["unmatched"]
            # locate the case containing line_no
            acc = 0
            for k, c in enumerate(mycases):
                if acc + len(c) >= line_no:
                    first = json.loads(c[0])
                    local = line_no - acc - 1
                    run_ev = None
                    for j in range(local, -1, -1):
                        e = json.loads(c[j])
                        if e.get("ev") == "run":
                            run_ev = e
                            break
                    rejected.append((first, json.loads(ev), run_ev, [json.loads(x) for x in c[max(0, local - 6):local + 1]]))
                    validated_cases += k
                    mycases = mycases[k + 1:]
                    break
                acc += len(c)
            else:
                raise ToolError("unmatched line outside chunk")
        else:
            if mycases and tries > max_retries:
                log(f"[tv] chunk {ci}: more than {max_retries} rejected cases, {len(mycases)} cases left unexamined")
        return states, validated_cases, rejected

    with ThreadPoolExecutor(max_workers=min(nchunks, pvlib.NCPU)) as ex:
        results = list(ex.map(one, range(nchunks)))
    states = sum(r[0] for r in results)
    ok_cases = sum(r[1] for r in results)
    nrej = 0
    for _, _, rejected in results:
        for first, ev, run_ev, ctx in rejected:
            key, summary = describe_case(first, ev, run_ev)
            key["tv_event"] = ev
            rep.violation(key, f"trace rejected by {module} at event {json.dumps(ev)[:300]} in run {json.dumps(run_ev)[:300]}; {summary}")
            nrej += 1
    return {"events": total_events, "cases": len(cases), "cases_accepted": ok_cases, "rejected": nrej,
            "states": states, "wall": time.time() - t0}
