"""./check --setup : offline build of the harness, SANY parse of every specification module."""
import os, glob
import pvlib
from pvlib import log


def run():
    pvlib.build_harness()
    pvlib.build_ls()
    bad = 0
    for f in sorted(glob.glob(os.path.join(pvlib.SPEC, "*.tla"))):
        m = os.path.basename(f)[:-4]
        ok, out = pvlib.sany(m)
        if not ok:
            log(f"SANY failed for {m}:\n{out[-2000:]}")
            bad += 1
    log(f"[setup] {'ok' if not bad else 'FAILED'}")
    return 2 if bad else 0
