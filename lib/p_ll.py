"""LL(k) run-time properties: GEN (verdicts against the bounded language) + TV (LLParser.tla)."""
import os, json, time
import pvlib, tv
from pvlib import Reporter, write_evidence, tlc_gen, pv, read_ndjson, log, OUT, ToolError
from p_bnf import universe, R_WIDE, with_


def lang_spaces(tier, n_quick=4, n_thorough=5, fam=True):
    n = n_quick if tier == "quick" else n_thorough
    nsim = 25 if tier == "quick" else 800
    sp = [{"constants": with_(universe(tier), LangN=n, ForLL=True)},
          {"constants": with_(R_WIDE, LangN=n, ForLL=True), "simulate": nsim, "nshards": 16, "depth": 12,
           "invariants": ["Emit"]},
          # lookahead-set families: S: X | Y with arbitrary two-coloured tries of depth 3 as lookahead automata
          {"module": "Gen_Fam", "constants": {"NTerm": 2, "L": 3, "LangN": 3}, "invariants": ["Emit", "LangIsFamily"],
           "nshards": 9, "every": 6 if tier == "quick" else 1, "spec": "Spec"}]
    if not fam:
        return sp[:2]
    if tier != "quick":
        sp.append({"module": "Gen_Fam", "constants": {"NTerm": 3, "L": 2, "LangN": 2},
                   "invariants": ["Emit", "LangIsFamily"], "nshards": 9, "every": 1, "spec": "Spec"})
    return sp


def lr_spaces(tier):
    n = 4 if tier == "quick" else 5
    nsim = 25 if tier == "quick" else 800
    return [{"constants": with_(universe(tier), LangN=n)},
            {"constants": with_(R_WIDE, LangN=n), "simulate": nsim, "nshards": 16, "depth": 12,
             "invariants": ["Emit"]}]


def describe(first, ev, run_ev):
    key = {"vec": first.get("vec"), "input": (run_ev or {}).get("input"), "opts": (run_ev or {}).get("opts"),
           "text": (run_ev or {}).get("text")}
    return key, f"grammar {json.dumps(first.get('vec', {}).get('g'))[:300]}"


def ll_check(prop, tier, replay, do_gen, tv_sample, tv_every, rule, focus, evalw=False, lr=False, write=True, fam=None):
    t0 = time.time()
    rep = Reporter(prop, tier)
    vec_path = os.path.join(OUT, f"{prop}_{tier}.vec.ndjson")
    tot = {"generated": 0, "distinct": 0, "wall": 0.0}
    space_cov = []
    if replay:
        case = json.load(open(replay))["case"]
        with open(vec_path, "w") as f:
            f.write(json.dumps(case["vec"]) + "\n")
        tv_every = 1
    else:
        with open(vec_path, "w") as fall:
            for si, sp in enumerate(lr_spaces(tier) if lr else lang_spaces(tier, fam=(prop in ("C01", "C08") or tier != "quick") if fam is None else fam)):
                part = vec_path + f".{si}"
                gen = tlc_gen(sp.get("module") or ("Gen_LR" if lr else "Gen_Lang"), sp["constants"],
                              sp.get("invariants", ["Emit", "MergeOnlyAdds"] if lr else ["Emit", "LangIsFixpoint"]),
                              sp.get("nshards", 16), part, run_prefix=f"{prop}_{tier}_{si}",
                              simulate=sp.get("simulate"), depth=sp.get("depth", 20), **({"spec": sp["spec"]} if sp.get("spec") else {}))
                if gen["violated"]:
                    raise ToolError(f"spec invariant {gen['violated']} violated in Gen_Lang:\n" + gen["out"][-3000:])
                seen = set()
                for li, l in enumerate(open(part)):
                    if l not in seen and li % sp.get("every", 1) == 0:
                        seen.add(l)
                        fall.write(l)
                os.remove(part)
                for k in ("generated", "distinct", "wall"):
                    tot[k] += gen[k]
                space_cov.append({"constants": {k: (sorted(v) if isinstance(v, (set, frozenset)) else v)
                                                for k, v in sp["constants"].items()},
                                  "mode": "exhaustive" if not sp.get("simulate") else f"tlc -simulate num={sp['simulate']} x 16 seeds",
                                  "states": gen["distinct"], "vectors": len(seen)})
    outp = os.path.join(OUT, f"{prop}_{tier}.replay.ndjson")
    pv(["replay", "lrrun" if lr else "llrun", vec_path, outp],
       env={"PV_GEN": "1" if do_gen else "0", "PV_TV_SAMPLE": tv_sample, "PV_TV_EVERY": tv_every, "PV_MAXK": 3,
            "PV_EVAL": "1" if evalw else "0"})
    res = read_ndjson(outp)
    summary = res[-1]["summary"]
    for r in res[:-1]:
        if "tool_error" in r:
            raise ToolError(r["tool_error"])
        m = r["mismatch"]
        key = {"vec": r["vec"], "what": m["what"], "input": (m["expected"] or {}).get("input") if isinstance(m["expected"], dict) else None}
        rep.violation(key, f"{m['what']}: expected {json.dumps(m['expected'])[:300]} got {json.dumps(m['actual'])[:300]} on grammar {json.dumps(r['vec']['g'])[:300]}")
    tvres = {"events": 0, "cases": 0, "cases_accepted": 0, "states": 0, "wall": 0}
    if summary["trace_events"] > 0:
        tvres = tv.validate(prop, "LRParser" if lr else "LLParser", outp + ".trace", rep, describe, nchunks=16,
                            invariants=["TypeOk", "StackYield"] if lr else ["TypeOk", "StackTreeAgree"],
                            run_prefix=f"{prop}_{tier}_tv")
    elif tv_sample:
        raise ToolError("no trace events recorded (vacuous TV leg)")
    samples = []
    with open(vec_path) as f:
        for i, l in enumerate(f):
            if i in (0, summary["vectors"] // 2, summary["vectors"] - 1):
                samples.append(json.loads(l))
    rc = rep.finish()
    cov = {"states": max(tot["distinct"] + tvres["states"], 1), "transitions": max(tot["generated"] + tvres["states"], 1),
           "traces_validated_against_impl": tvres["cases_accepted"], "samples": samples,
           "evaluations": summary["evaluations"], "distinct_nontrivial": summary["tags"].get("accepted", 0) + summary["tags"].get("accepted_clean", 0) + summary["tags"].get("resolved_conflicts", 0),
           "rule": rule, "tags": summary["tags"], "spaces": space_cov, "focus": focus,
           "tv": {k: tvres[k] for k in ("events", "cases", "cases_accepted", "states")},
           "exhaustive": False, "known_findings_seen": rep.known, "tlc_wall_s": round(tot["wall"] + tvres["wall"], 1)}
    if not write:
        return rc, cov, len(rep.violations)
    write_evidence(prop, tier, "model_checking", cov, time.time() - t0, len(rep.violations),
                   ["the generated source is turned into run-time tables by harness/src/dynrt.rs (syn + scnr2_generate) instead of rustc; "
                    "C21/C22 cover that step", "token strings are rendered with single blanks (decorated variants add comments/newlines)"])
    return rc


RULE = ("grammars: every well-formed left-recursion-free grammar of the exhaustive universe plus guided random walks over the "
        "wide universe plus (C01, C08; all in thorough) the lookahead-set families of Gen_Fam.tla (S: X | Y with every assignment of the "
        "strings of length 3 over {a,b} to X, Y or neither: arbitrary two-coloured tries as lookahead automata, k = 3) "
        "(TLC emits the grammar with its bounded language Lang(G,n)); each is written as PAR text and taken through "
        "parol's whole pipeline (parse, check/transform, lookahead analysis K<=3, source generation) and the generated tables are run by "
        "the real LLKParser. GEN: every string over terminals + one foreign token up to length n, recovery on and off, Ok iff member "
        "of Lang. TV: for a sample of inputs (sentences and non-sentences) x 3 texts (plain, two decorated with comments/newlines) x 6 "
        "option combinations the recorded open/tok/close/action/comment/result calls are validated step by step against LLParser.tla "
        "over parol's own transformed grammar (with LA-set guard on every expansion). non-trivial = grammar accepted by parol")


def c01(prop, tier, replay):
    return ll_check(prop, tier, replay, True, 2, 8 if tier == "quick" else 6, RULE, "verdict = membership in Lang (GEN) and derivation certificate (TV)")


def c02(prop, tier, replay):
    return ll_check(prop, tier, replay, False, 4, 4 if tier == "quick" else 12, RULE, "TV only: tree = derivation, actions in post-order with the right children")


def c20(prop, tier, replay):
    return ll_check(prop, tier, replay, False, 3, 5 if tier == "quick" else 12, RULE, "TV only: option variants (trim, recovery off, depth limits) compared with the reference run")


def c08(prop, tier, replay):
    return ll_check(prop, tier, replay, False, 1, 2 if tier == "quick" else 4, RULE + "; C08 adds: for every non-terminal with k>=1 "
                    "the real LookaheadDFA::eval is called on a real TokenStream for EVERY window of up to k+1 tokens over the terminals "
                    "and a foreign token (end of input after it) and the `eval` event is checked against LaSet of parol's transformed "
                    "grammar: result p only if some lookahead string of p is a prefix of the window, error iff none is",
                    "eval() exactness on all windows (TV) + LaSet guard on every expansion of the recorded runs", evalw=True)


RULE_LR = ("grammars: every well-formed grammar of the exhaustive universe (left-, right- and start-recursive ones included) plus guided "
           "random walks; TLC emits the bounded language and the LALR(1) verdict of a canonical-LR(1)-merged-by-core construction (LR1.tla). "
           "Each grammar goes through parol's LALR(1) pipeline (augmentation, lalry table, source generation) under catch_unwind and the "
           "generated tables are run by the real LRParser. GEN: a panic is a violation; a table without any reported conflict for a grammar "
           "that is not LALR(1) is a violation (C04); for every string up to length n: success only on sentences (always), and for tables "
           "without resolved conflicts failure only on non-sentences, also when ONE LRParser object is given all inputs in order (a failed "
           "run must not leave state behind). TV: sampled inputs x 3 texts x 5 option sets validated by LRParser.tla "
           "(reductions pop exactly a right-hand side from the symbol stack; final tree = derivation tree + skipped leaves, contiguous; "
           "comments once in order). non-trivial = table produced")


def c03(prop, tier, replay):
    return ll_check(prop, tier, replay, True, 2, 6 if tier == "quick" else 12, RULE_LR,
                    "clean tables: verdict = membership (GEN), reductions = reverse rightmost derivation, tree rooted at start covering all tokens (TV)", lr=True)


def c04(prop, tier, replay):
    return ll_check(prop, tier, replay, True, 1, 12 if tier == "quick" else 24, RULE_LR,
                    "not LALR(1) => rejected or conflict reported; resolved tables accept only sentences", lr=True)


REGISTRY = {"C01": c01, "C02": c02, "C20": c20, "C08": c08, "C03": c03, "C04": c04}
