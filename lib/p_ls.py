"""Language-server properties, driven through the real parol-ls binary over stdio (LSP)."""
import os, json, time
from concurrent.futures import ThreadPoolExecutor
import pvlib, tv, lsp
from pvlib import Reporter, write_evidence, tlc_gen, tlc_mc, read_ndjson, log, OUT, ToolError

URI = "file:///verif/doc.par"
TEXTS = {
    "ok": '%start S\n%%\nS: "a";\n',
    "pe": '%start S\n%%\nS: "a"\n',
    "ce": '%start S\n%%\nS: "a";\nB: "b";\n',
    "ae": '%start S\n%%\nS: A "a" | B "b";\nA: { "x" };\nB: { "x" };\n',
    "lr": "%start S\n%grammar_type 'LALR(1)'\n%%\nS: \"i\" S | \"i\" S \"e\" S | \"a\";\n",
}


def canon_diags(ds):
    return json.dumps([{"m": d.get("message"), "r": d.get("range"), "s": d.get("severity")} for d in ds], sort_keys=True)


def run_session(binary, texts, schedule):
    """returns (published [[ver, canon]], ok, note)"""
    s = lsp.LsSession(binary, schedule=[f"{k}:{v}" for k, v in schedule])
    try:
        for i, t in enumerate(texts):
            if i == 0:
                s.notify("textDocument/didOpen", {"textDocument": {"uri": URI, "languageId": "parol", "version": 1, "text": TEXTS[t]}})
            else:
                s.notify("textDocument/didChange", {"textDocument": {"uri": URI, "version": i + 1}, "contentChanges": [{"text": TEXTS[t]}]})
        done = s.wait_gate(len(schedule), timeout=40)
        s.wait_quiet(0.25, 10)
        pubs = [[p.get("version"), canon_diags(p["diagnostics"])] for p in s.publishes(URI)]
        note = None
        if not done:
            note = "schedule not completed: " + (s.panic_text() or ("server died" if not s.alive() else "gate timeout"))
        return pubs, done, note
    finally:
        s.close()


def c29(prop, tier, replay):
    t0 = time.time()
    rep = Reporter(prop, tier)
    binary = pvlib.build_ls()
    # (an LALR(1) text with resolved conflicts is not used: in stdio mode its analysis thread blocks forever in the
    # println! of lalr1_parse_table.rs because the LSP writer thread holds the stdout lock - see DESIGN.md)
    texts_all = {"ok", "pe", "ce", "ae"}
    # ---- MC: the required behaviour satisfies the property; the structure of today's server.rs does not
    req = tlc_mc("LsDiag", None, run_name=f"{prop}_{tier}_req", constants={"Texts": texts_all, "MaxEdits": 3, "AsCoded": False},
                 spec="Spec", invariants=["FinalDiagnosticsCurrent", "VersionsKnown", "SyncInOrder"], view="view", workers=8)
    if not req["ok"]:
        raise ToolError("LsDiag (required behaviour) does not satisfy its invariants:\n" + req["out"][-2500:])
    coded = tlc_mc("LsDiag", None, run_name=f"{prop}_{tier}_coded", constants={"Texts": {"ok", "ae"}, "MaxEdits": 2, "AsCoded": True},
                   spec="Spec", invariants=["FinalDiagnosticsCurrent"], view="view", workers=4, coverage=False)
    # ---- calibration: each text on its own
    calib = {}
    for t in sorted(texts_all):
        sched = [("handle", 1), ("ok", 1)] + ([] if t in ("pe", "ce") else [("run", 1)] + ([("pub", 1)] if t in ("ae", "lr") else []))
        pubs, done, note = run_session(binary, [t], sched)
        if not done or not pubs:
            raise ToolError(f"calibration session for text class {t} failed: {note} {pubs}")
        calib[t] = pubs[-1][1]
        # the class must be told apart from the others
    if len(set(calib.values())) != len(calib) - 0 and calib["ok"] in [calib[k] for k in calib if k != "ok"]:
        raise ToolError("calibration: text classes produce indistinguishable diagnostics")
    cls_of = {v: ("none" if k == "ok" else k) for k, v in calib.items()}
    # ---- GEN: all schedules of the as-coded machine
    vec_path = os.path.join(OUT, f"{prop}_{tier}.vec.ndjson")
    if replay:
        case = json.load(open(replay))["case"]
        with open(vec_path, "w") as f:
            f.write(json.dumps(case["vec"]) + "\n")
        gstats = {"generated": 0, "distinct": 0}
    else:
        spaces = [({"Texts": texts_all, "MaxEdits": 2, "AsCoded": True}, "a"),
                  ({"Texts": {"ok", "ae"} if tier == "quick" else {"ok", "ae", "pe", "ce"}, "MaxEdits": 3, "AsCoded": True}, "b")]
        gstats = {"generated": 0, "distinct": 0}
        with open(vec_path, "w") as fall:
            for consts, tag in spaces:
                part = vec_path + tag
                g = tlc_gen("LsDiag", consts, ["Emit", "VersionsKnown", "SyncInOrder"], 1, part, spec="Spec",
                            run_prefix=f"{prop}_{tier}_{tag}", no_shard_consts=True)
                if g["violated"]:
                    raise ToolError("LsDiag invariant violated while generating schedules: " + str(g["violated"]))
                seen = set()
                for l in open(part):
                    if l not in seen:
                        seen.add(l)
                        fall.write(l)
                os.remove(part)
                gstats["generated"] += g["generated"]
                gstats["distinct"] += g["distinct"]
    vecs = read_ndjson(vec_path)
    if not vecs:
        raise ToolError("no schedules generated")
    nall = len(vecs)
    if tier == "quick" and not replay:
        # all schedules of two edits; of the three-edit schedules every 12th (rotating with the seed)
        k = pvlib.seed() % 12
        vecs = [v for i, v in enumerate(vecs) if len(v["texts"]) < 3 or i % 12 == k]
    # ---- replay through the real server
    def one(v):
        sched = [(s[0], s[1]) for s in v["schedule"]]
        try:
            pubs, done, note = run_session(binary, v["texts"], sched)
        except Exception as ex:
            return v, None, f"session failed: {ex}"
        return v, pubs, None if done else note
    trace_path = os.path.join(OUT, f"{prop}_{tier}.trace.ndjson")
    n_not_current = 0
    with ThreadPoolExecutor(max_workers=8) as ex, open(trace_path, "w") as tf:
        for v, pubs, note in ex.map(one, vecs):
            if note is not None:
                rep.violation({"vec": v, "what": "session"}, f"session did not complete: {note} for {json.dumps(v)[:300]}")
                continue
            observed = []
            bad = False
            for ver, cd in pubs:
                if cd not in cls_of:
                    rep.violation({"vec": v, "what": "unknown-diagnostics"},
                                  f"published diagnostics that belong to none of the texts: version {ver}: {cd[:300]}")
                    bad = True
                    break
                observed.append([ver, cls_of[cd]])
            if bad:
                continue
            tf.write(json.dumps({"ev": "session", "texts": v["texts"], "schedule": v["schedule"], "published": observed, "vec": v},
                                separators=(",", ":")) + "\n")

    def describe(first, ev, run_ev):
        return {"vec": {"texts": ev.get("texts"), "schedule": ev.get("schedule")}, "why": sorted(ev.get("why", [])),
                "published": ev.get("published"), "model": ev.get("model")}, \
            f"{ev.get('why')}: texts {ev.get('texts')} schedule {ev.get('schedule')} published {ev.get('published')}"
    tvres = tv.validate(prop, "Trace_LsDiag", trace_path, rep, describe, nchunks=4, boundary="session", run_prefix=f"{prop}_{tier}_tv")
    rc = rep.finish()
    samples = vecs[:1] + vecs[len(vecs) // 2:len(vecs) // 2 + 1]
    cov = {"states": req["distinct"] + gstats["distinct"] + tvres["states"], "transitions": req["generated"] + gstats["generated"] + tvres["states"],
           "traces_validated_against_impl": tvres["cases"], "samples": samples,
           "evaluations": len(vecs), "schedules_generated": nall, "distinct_nontrivial": sum(1 for v in vecs if len(v["schedule"]) >= 6),
           "rule": "LsDiag.tla: all interleavings of main-loop sections (handle, ok) and background-thread sections (run, pub) for up to 3 edits over "
                   "4 text classes; the required behaviour is model-checked against FinalDiagnosticsCurrent (holds) and the as-coded structure too "
                   "(violated: documented); every schedule the as-coded machine admits for the bounds is replayed through the real parol-ls binary "
                   "(LSP over stdio) with the cfg(parol_verif) gate forcing exactly that order; the observed publishDiagnostics sequence must be "
                   "the one the as-coded model predicts (conformance) and its last element must be the final text's diagnostics at the final "
                   "version (property). non-trivial: schedules with >= 6 sections",
           "mc_required": {"states": req["distinct"], "actions": req["actions"]},
           "mc_as_coded_violates_property": coded["violated"] is not None,
           "tv": {k: tvres[k] for k in ("events", "cases", "cases_accepted", "states")},
           "exhaustive": tier != "quick", "known_findings_seen": rep.known}
    write_evidence(prop, tier, "model_checking", cov, time.time() - t0, len(rep.violations),
                   ["diagnostics are classified by comparing them with the diagnostics each text produces on its own (calibration sessions)",
                    "one document; edits are sent up front, the gate decides when the main loop handles each"])
    return rc


REGISTRY = {"C29": c29}
