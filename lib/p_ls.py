"""Language-server properties, driven through the real parol-ls binary over stdio (LSP)."""
import os, json, time
from concurrent.futures import ThreadPoolExecutor
import pvlib, tv, lsp
from pvlib import Reporter, write_evidence, tlc_gen, tlc_mc, read_ndjson, log, OUT, ToolError

URI = "file:///verif/doc.par"
TEXTS = {
    "ok": '%start S\n%%\nS: "a";\n',
    "pe": '%start S\n%%\nS: "a"\n',
    "ce": '%start S\n%%\nS: "a";\nB: "b";\n',
    "ae": '%start S\n%%\nS: A "a" | B "b";\nA: { "x" };\nB: { "x" };\n',
    "lr": "%start S\n%grammar_type 'LALR(1)'\n%%\nS: \"i\" S | \"i\" S \"e\" S | \"a\";\n",
}


def canon_diags(ds):
    return json.dumps([{"m": d.get("message"), "r": d.get("range"), "s": d.get("severity")} for d in ds], sort_keys=True)


def run_session(binary, texts, schedule):
    """returns (published [[ver, canon]], ok, note)"""
    s = lsp.LsSession(binary, schedule=[f"{k}:{v}" for k, v in schedule])
    try:
        for i, t in enumerate(texts):
            if i == 0:
                s.notify("textDocument/didOpen", {"textDocument": {"uri": URI, "languageId": "parol", "version": 1, "text": TEXTS[t]}})
            else:
                s.notify("textDocument/didChange", {"textDocument": {"uri": URI, "version": i + 1}, "contentChanges": [{"text": TEXTS[t]}]})
        done = s.wait_gate(len(schedule), timeout=40)
        s.wait_quiet(0.25, 10)
        pubs = [[p.get("version"), canon_diags(p["diagnostics"])] for p in s.publishes(URI)]
        note = None
        if not done:
            note = "schedule not completed: " + (s.panic_text() or ("server died" if not s.alive() else "gate timeout"))
        return pubs, done, note
    finally:
        s.close()


def c29(prop, tier, replay):
    t0 = time.time()
    rep = Reporter(prop, tier)
    binary = pvlib.build_ls()
    # (an LALR(1) text with resolved conflicts is not used: in stdio mode its analysis thread blocks forever in the
    # println! of lalr1_parse_table.rs because the LSP writer thread holds the stdout lock - see DESIGN.md)
    texts_all = {"ok", "pe", "ce", "ae"}
    # ---- MC: the required behaviour satisfies the property; the structure of today's server.rs does not
    req = tlc_mc("LsDiag", None, run_name=f"{prop}_{tier}_req", constants={"Texts": texts_all, "MaxEdits": 3, "AsCoded": False},
                 spec="Spec", invariants=["FinalDiagnosticsCurrent", "VersionsKnown", "SyncInOrder"], view="view", workers=8)
    if not req["ok"]:
        raise ToolError("LsDiag (required behaviour) does not satisfy its invariants:\n" + req["out"][-2500:])
    coded = tlc_mc("LsDiag", None, run_name=f"{prop}_{tier}_coded", constants={"Texts": {"ok", "ae"}, "MaxEdits": 2, "AsCoded": True},
                   spec="Spec", invariants=["FinalDiagnosticsCurrent"], view="view", workers=4, coverage=False)
    # ---- calibration: each text on its own
    calib = {}
    for t in sorted(texts_all):
        sched = [("handle", 1), ("ok", 1)] + ([] if t in ("pe", "ce") else [("run", 1)] + ([("pub", 1)] if t in ("ae", "lr") else []))
        pubs, done, note = run_session(binary, [t], sched)
        if not done or not pubs:
            raise ToolError(f"calibration session for text class {t} failed: {note} {pubs}")
        calib[t] = pubs[-1][1]
        # the class must be told apart from the others
    if len(set(calib.values())) != len(calib) - 0 and calib["ok"] in [calib[k] for k in calib if k != "ok"]:
        raise ToolError("calibration: text classes produce indistinguishable diagnostics")
    cls_of = {v: ("none" if k == "ok" else k) for k, v in calib.items()}
    # ---- GEN: all schedules of the as-coded machine
    vec_path = os.path.join(OUT, f"{prop}_{tier}.vec.ndjson")
    if replay:
        case = json.load(open(replay))["case"]
        with open(vec_path, "w") as f:
            f.write(json.dumps(case["vec"]) + "\n")
        gstats = {"generated": 0, "distinct": 0}
    else:
        spaces = [({"Texts": texts_all, "MaxEdits": 2, "AsCoded": True}, "a"),
                  ({"Texts": {"ok", "ae"} if tier == "quick" else {"ok", "ae", "pe", "ce"}, "MaxEdits": 3, "AsCoded": True}, "b")]
        gstats = {"generated": 0, "distinct": 0}
        with open(vec_path, "w") as fall:
            for consts, tag in spaces:
                part = vec_path + tag
                g = tlc_gen("LsDiag", consts, ["Emit", "VersionsKnown", "SyncInOrder"], 1, part, spec="Spec",
                            run_prefix=f"{prop}_{tier}_{tag}", no_shard_consts=True)
                if g["violated"]:
                    raise ToolError("LsDiag invariant violated while generating schedules: " + str(g["violated"]))
                seen = set()
                for l in open(part):
                    if l not in seen:
                        seen.add(l)
                        fall.write(l)
                os.remove(part)
                gstats["generated"] += g["generated"]
                gstats["distinct"] += g["distinct"]
    vecs = read_ndjson(vec_path)
    if not vecs:
        raise ToolError("no schedules generated")
    nall = len(vecs)
    if tier == "quick" and not replay:
        # all schedules of two edits; of the three-edit schedules every 12th (rotating with the seed)
        k = pvlib.seed() % 12
        vecs = [v for i, v in enumerate(vecs) if len(v["texts"]) < 3 or i % 12 == k]
    # ---- replay through the real server
    def one(v):
        sched = [(s[0], s[1]) for s in v["schedule"]]
        try:
            pubs, done, note = run_session(binary, v["texts"], sched)
        except Exception as ex:
            return v, None, f"session failed: {ex}"
        return v, pubs, None if done else note
    trace_path = os.path.join(OUT, f"{prop}_{tier}.trace.ndjson")
    n_not_current = 0
    with ThreadPoolExecutor(max_workers=8) as ex, open(trace_path, "w") as tf:
        for v, pubs, note in ex.map(one, vecs):
            if note is not None:
                rep.violation({"vec": v, "what": "session"}, f"session did not complete: {note} for {json.dumps(v)[:300]}")
                continue
            observed = []
            bad = False
            for ver, cd in pubs:
                if cd not in cls_of:
                    rep.violation({"vec": v, "what": "unknown-diagnostics"},
                                  f"published diagnostics that belong to none of the texts: version {ver}: {cd[:300]}")
                    bad = True
                    break
                observed.append([ver, cls_of[cd]])
            if bad:
                continue
            tf.write(json.dumps({"ev": "session", "texts": v["texts"], "schedule": v["schedule"], "published": observed, "vec": v},
                                separators=(",", ":")) + "\n")

    def describe(first, ev, run_ev):
        return {"vec": {"texts": ev.get("texts"), "schedule": ev.get("schedule")}, "why": sorted(ev.get("why", [])),
                "published": ev.get("published"), "model": ev.get("model")}, \
            f"{ev.get('why')}: texts {ev.get('texts')} schedule {ev.get('schedule')} published {ev.get('published')}"
    tvres = tv.validate(prop, "Trace_LsDiag", trace_path, rep, describe, nchunks=4, boundary="session", run_prefix=f"{prop}_{tier}_tv")
    rc = rep.finish()
    samples = vecs[:1] + vecs[len(vecs) // 2:len(vecs) // 2 + 1]
    cov = {"states": req["distinct"] + gstats["distinct"] + tvres["states"], "transitions": req["generated"] + gstats["generated"] + tvres["states"],
           "traces_validated_against_impl": tvres["cases"], "samples": samples,
           "evaluations": len(vecs), "schedules_generated": nall, "distinct_nontrivial": sum(1 for v in vecs if len(v["schedule"]) >= 6),
           "rule": "LsDiag.tla: all interleavings of main-loop sections (handle, ok) and background-thread sections (run, pub) for up to 3 edits over "
                   "4 text classes; the required behaviour is model-checked against FinalDiagnosticsCurrent (holds) and the as-coded structure too "
                   "(violated: documented); every schedule the as-coded machine admits for the bounds is replayed through the real parol-ls binary "
                   "(LSP over stdio) with the cfg(parol_verif) gate forcing exactly that order; the observed publishDiagnostics sequence must be "
                   "the one the as-coded model predicts (conformance) and its last element must be the final text's diagnostics at the final "
                   "version (property). non-trivial: schedules with >= 6 sections",
           "mc_required": {"states": req["distinct"], "actions": req["actions"]},
           "mc_as_coded_violates_property": coded["violated"] is not None,
           "tv": {k: tvres[k] for k in ("events", "cases", "cases_accepted", "states")},
           "exhaustive": tier != "quick", "known_findings_seen": rep.known}
    write_evidence(prop, tier, "model_checking", cov, time.time() - t0, len(rep.violations),
                   ["diagnostics are classified by comparing them with the diagnostics each text produces on its own (calibration sessions)",
                    "one document; edits are sent up front, the gate decides when the main loop handles each"])
    return rc


def ls_batch_parse(binary, items, tag):
    """items: list of {"id","text"}; returns {id: verdict} from the language server's own parser"""
    import subprocess
    path = os.path.join(OUT, f"ls_parse_{tag}.ndjson")
    with open(path, "w") as f:
        for it in items:
            f.write(json.dumps({"id": it["id"], "text": it["text"]}) + "\n")
    env = dict(os.environ)
    env["PAROL_LS_VERIF_PARSE"] = path
    r = subprocess.run([binary, "--stdio"], env=env, stdout=subprocess.PIPE, stderr=subprocess.PIPE, text=True, timeout=1800)
    out = {}
    for l in r.stdout.splitlines():
        try:
            v = json.loads(l)
            out[v["id"]] = v["verdict"]
        except Exception:
            pass
    if len(out) < len(items):
        raise ToolError(f"parol-ls batch parse answered {len(out)} of {len(items)} texts (rc={r.returncode}): {r.stderr[-1500:]}")
    return out


def c34(prop, tier, replay):
    import p_misc
    from p_misc import corpus_pars, naming_vectors, PAR_FLAGS, ebnf_gens
    t0 = time.time()
    rep = Reporter(prop, tier)
    binary = pvlib.build_ls()
    vec_path = os.path.join(OUT, f"{prop}_{tier}.vec.ndjson")
    nmut = 6 if tier == "quick" else 60
    spaces = []
    tot = {"generated": 0, "distinct": 0}
    if replay:
        case = json.load(open(replay))["case"]
        with open(vec_path, "w") as f:
            f.write(json.dumps({"par": case["text"], "id": case["id"], "mutations": 0}) + "\n")
    else:
        with open(vec_path, "w") as f:
            files = corpus_pars()
            for i, fn in enumerate(files):
                f.write(json.dumps({"par": open(fn).read(), "id": fn, "seed": pvlib.seed() * 31 + i, "mutations": nmut}) + "\n")
            spaces.append({"space": "repository .par files", "vectors": len(files), "mutations_each": nmut})
            for v in naming_vectors():
                v.update({"seed": pvlib.seed(), "mutations": nmut})
                f.write(json.dumps(v) + "\n")
            # feature templates and EBNF grammars from the TLC generators
            for gi, g in enumerate([{"module": "Gen_Flags", "constants": {"Flags": PAR_FLAGS, "MinOn": 0, "MaxOn": 2 if tier == "quick" else 4},
                                     "invariants": ["Emit"], "no_shard_consts": True}] + ebnf_gens(tier, False)[:2]):
                part = vec_path + f".{gi}"
                gen = tlc_gen(g["module"], g["constants"], g["invariants"], 1, part, spec="Spec", run_prefix=f"{prop}_{tier}_{gi}",
                              no_shard_consts=True)
                k = 0
                for j, l in enumerate(open(part)):
                    v = json.loads(l)
                    v.update({"id": f"{g['module']}{gi}-{j}", "seed": pvlib.seed() + j, "mutations": 2 if tier == "quick" else 10})
                    f.write(json.dumps(v) + "\n")
                    k += 1
                os.remove(part)
                tot["generated"] += gen["generated"]
                tot["distinct"] += gen["distinct"]
                spaces.append({"space": g["module"], "vectors": k})
    outp = os.path.join(OUT, f"{prop}_{tier}.replay.ndjson")
    pvlib.pv(["replay", "c34", vec_path, outp])
    res = read_ndjson(outp)
    summary = res[-1]["summary"]
    events = read_ndjson(outp + ".trace")
    if not events:
        raise ToolError("no texts generated")
    ls = ls_batch_parse(binary, events, f"{prop}_{tier}")
    trace_path = os.path.join(OUT, f"{prop}_{tier}.trace.ndjson")
    agree_err = 0
    with open(trace_path, "w") as f:
        for e in events:
            e["ls"] = ls[e["id"]]
            agree_err += e["parol"] == "syntax" and e["ls"] == "syntax"
            f.write(json.dumps(e, separators=(",", ":")) + "\n")

    def describe(first, ev, run_ev):
        return {"id": ev.get("id"), "text": ev.get("text"), "parol": ev.get("parol"), "ls": ev.get("ls")}, \
            f"parol: {ev.get('parol')} / parol-ls: {ev.get('ls')} on {json.dumps(ev.get('text'))[:300]}"
    tvres = tv.validate(prop, "ParseAgree", trace_path, rep, describe, nchunks=8, boundary="parse", run_prefix=f"{prop}_{tier}_tv")
    rc = rep.finish()
    cov = {"states": max(tot["distinct"] + tvres["states"], 1), "transitions": max(tot["generated"] + tvres["states"], 1),
           "traces_validated_against_impl": tvres["cases_accepted"], "samples": [{k: e[k] for k in ("id", "parol", "ls")} for e in events[:3]],
           "evaluations": len(events), "distinct_nontrivial": agree_err,
           "rule": "texts: every .par file of the repository, the naming catalogue, TLC-enumerated PAR feature templates and EBNF grammars, each as "
                   "it is and with seeded mutations (deleted/duplicated/swapped/truncated spans, inserted PAR punctuation and directives); each text "
                   "is parsed by parol's parser (parol::parse) and by the language server's parser (parol-ls batch mode behind cfg(parol_verif)); "
                   "ParseAgree.tla requires: syntax error in one iff syntax error in the other, no panic. non-trivial = texts both reject",
           "tags": summary["tags"], "spaces": spaces, "tv": {k: tvres[k] for k in ("events", "cases", "cases_accepted", "states")},
           "exhaustive": False, "known_findings_seen": rep.known}
    write_evidence(prop, tier, "exploration", cov, time.time() - t0, len(rep.violations),
                   ["bounded CFG equivalence of parol.par and parol_ls.par by TLC was not feasible (43 terminals; see DESIGN.md): the verdict rests on "
                    "differential parsing"])
    return rc


REGISTRY = {"C29": c29, "C34": c34}
