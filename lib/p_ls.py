"""Language-server properties, driven through the real parol-ls binary over stdio (LSP)."""
import os, json, time
from concurrent.futures import ThreadPoolExecutor
import pvlib, tv, lsp
from pvlib import Reporter, write_evidence, tlc_gen, tlc_mc, read_ndjson, log, OUT, ToolError

URI = "file:///verif/doc.par"
TEXTS = {
    "ok": '%start S\n%%\nS: "a";\n',
    "pe": '%start S\n%%\nS: "a"\n',
    "ce": '%start S\n%%\nS: "a";\nB: "b";\n',
    "ae": '%start S\n%%\nS: A "a" | B "b";\nA: { "x" };\nB: { "x" };\n',
    "lr": "%start S\n%grammar_type 'LALR(1)'\n%%\nS: \"i\" S | \"i\" S \"e\" S | \"a\";\n",
}


def canon_diags(ds):
    return json.dumps([{"m": d.get("message"), "r": d.get("range"), "s": d.get("severity")} for d in ds], sort_keys=True)


def run_session(binary, texts, schedule):
    """returns (published [[ver, canon]], ok, note)"""
    s = lsp.LsSession(binary, schedule=[f"{k}:{v}" for k, v in schedule])
    try:
        for i, t in enumerate(texts):
            if i == 0:
                s.notify("textDocument/didOpen", {"textDocument": {"uri": URI, "languageId": "parol", "version": 1, "text": TEXTS[t]}})
            else:
                s.notify("textDocument/didChange", {"textDocument": {"uri": URI, "version": i + 1}, "contentChanges": [{"text": TEXTS[t]}]})
        done = s.wait_gate(len(schedule), timeout=40)
        s.wait_quiet(0.25, 10)
        pubs = [[p.get("version"), canon_diags(p["diagnostics"])] for p in s.publishes(URI)]
        note = None
        if not done:
            note = "schedule not completed: " + (s.panic_text() or ("server died" if not s.alive() else "gate timeout"))
        return pubs, done, note
    finally:
        s.close()


def c29(prop, tier, replay):
    t0 = time.time()
    rep = Reporter(prop, tier)
    binary = pvlib.build_ls()
    # (an LALR(1) text with resolved conflicts is not used: in stdio mode its analysis thread blocks forever in the
    # println! of lalr1_parse_table.rs because the LSP writer thread holds the stdout lock - see DESIGN.md)
    texts_all = {"ok", "pe", "ce", "ae"}
    # ---- MC: the required behaviour satisfies the property; the structure of today's server.rs does not
    req = tlc_mc("LsDiag", None, run_name=f"{prop}_{tier}_req", constants={"Texts": texts_all, "MaxEdits": 3, "AsCoded": False},
                 spec="Spec", invariants=["FinalDiagnosticsCurrent", "VersionsKnown", "SyncInOrder"], view="view", workers=8)
    if not req["ok"]:
        raise ToolError("LsDiag (required behaviour) does not satisfy its invariants:\n" + req["out"][-2500:])
    coded = tlc_mc("LsDiag", None, run_name=f"{prop}_{tier}_coded", constants={"Texts": {"ok", "ae"}, "MaxEdits": 2, "AsCoded": True},
                   spec="Spec", invariants=["FinalDiagnosticsCurrent"], view="view", workers=4, coverage=False)
    # ---- calibration: each text on its own
    calib = {}
    for t in sorted(texts_all):
        sched = [("handle", 1), ("ok", 1)] + ([] if t in ("pe", "ce") else [("run", 1)] + ([("pub", 1)] if t in ("ae", "lr") else []))
        pubs, done, note = run_session(binary, [t], sched)
        if not done or not pubs:
            raise ToolError(f"calibration session for text class {t} failed: {note} {pubs}")
        calib[t] = pubs[-1][1]
        # the class must be told apart from the others
    if len(set(calib.values())) != len(calib) - 0 and calib["ok"] in [calib[k] for k in calib if k != "ok"]:
        raise ToolError("calibration: text classes produce indistinguishable diagnostics")
    cls_of = {v: ("none" if k == "ok" else k) for k, v in calib.items()}
    # ---- GEN: all schedules of the as-coded machine
    vec_path = os.path.join(OUT, f"{prop}_{tier}.vec.ndjson")
    if replay:
        case = json.load(open(replay))["case"]
        with open(vec_path, "w") as f:
            f.write(json.dumps(case["vec"]) + "\n")
        gstats = {"generated": 0, "distinct": 0}
    else:
        spaces = [({"Texts": texts_all, "MaxEdits": 2, "AsCoded": True}, "a"),
                  ({"Texts": {"ok", "ae"} if tier == "quick" else {"ok", "ae", "pe", "ce"}, "MaxEdits": 3, "AsCoded": True}, "b")]
        gstats = {"generated": 0, "distinct": 0}
        with open(vec_path, "w") as fall:
            for consts, tag in spaces:
                part = vec_path + tag
                g = tlc_gen("LsDiag", consts, ["Emit", "VersionsKnown", "SyncInOrder"], 1, part, spec="Spec",
                            run_prefix=f"{prop}_{tier}_{tag}", no_shard_consts=True)
                if g["violated"]:
                    raise ToolError("LsDiag invariant violated while generating schedules: " + str(g["violated"]))
                seen = set()
                for l in open(part):
                    if l not in seen:
                        seen.add(l)
                        fall.write(l)
                os.remove(part)
                gstats["generated"] += g["generated"]
                gstats["distinct"] += g["distinct"]
    vecs = read_ndjson(vec_path)
    if not vecs:
        raise ToolError("no schedules generated")
    nall = len(vecs)
    if tier == "quick" and not replay:
        # all schedules of two edits; of the three-edit schedules every 12th (rotating with the seed)
        k = pvlib.seed() % 12
        vecs = [v for i, v in enumerate(vecs) if len(v["texts"]) < 3 or i % 12 == k]
    # ---- replay through the real server
    def one(v):
        sched = [(s[0], s[1]) for s in v["schedule"]]
        try:
            pubs, done, note = run_session(binary, v["texts"], sched)
        except Exception as ex:
            return v, None, f"session failed: {ex}"
        return v, pubs, None if done else note
    trace_path = os.path.join(OUT, f"{prop}_{tier}.trace.ndjson")
    n_not_current = 0
    with ThreadPoolExecutor(max_workers=8) as ex, open(trace_path, "w") as tf:
        for v, pubs, note in ex.map(one, vecs):
            if note is not None:
                rep.violation({"vec": v, "what": "session"}, f"session did not complete: {note} for {json.dumps(v)[:300]}")
                continue
            observed = []
            bad = False
            for ver, cd in pubs:
                if cd not in cls_of:
                    rep.violation({"vec": v, "what": "unknown-diagnostics"},
                                  f"published diagnostics that belong to none of the texts: version {ver}: {cd[:300]}")
                    bad = True
                    break
                observed.append([ver, cls_of[cd]])
            if bad:
                continue
            tf.write(json.dumps({"ev": "session", "texts": v["texts"], "schedule": v["schedule"], "published": observed, "vec": v},
                                separators=(",", ":")) + "\n")

    def describe(first, ev, run_ev):
        return {"vec": {"texts": ev.get("texts"), "schedule": ev.get("schedule")}, "why": sorted(ev.get("why", [])),
                "published": ev.get("published"), "model": ev.get("model")}, \
            f"{ev.get('why')}: texts {ev.get('texts')} schedule {ev.get('schedule')} published {ev.get('published')}"
    tvres = tv.validate(prop, "Trace_LsDiag", trace_path, rep, describe, nchunks=4, boundary="session", run_prefix=f"{prop}_{tier}_tv")
    rc = rep.finish()
    samples = vecs[:1] + vecs[len(vecs) // 2:len(vecs) // 2 + 1]
    cov = {"states": req["distinct"] + gstats["distinct"] + tvres["states"], "transitions": req["generated"] + gstats["generated"] + tvres["states"],
           "traces_validated_against_impl": tvres["cases"], "samples": samples,
           "evaluations": len(vecs), "schedules_generated": nall, "distinct_nontrivial": sum(1 for v in vecs if len(v["schedule"]) >= 6),
           "rule": "LsDiag.tla: all interleavings of main-loop sections (handle, ok) and background-thread sections (run, pub) for up to 3 edits over "
                   "4 text classes; the required behaviour is model-checked against FinalDiagnosticsCurrent (holds) and the as-coded structure too "
                   "(violated: documented); every schedule the as-coded machine admits for the bounds is replayed through the real parol-ls binary "
                   "(LSP over stdio) with the cfg(parol_verif) gate forcing exactly that order; the observed publishDiagnostics sequence must be "
                   "the one the as-coded model predicts (conformance) and its last element must be the final text's diagnostics at the final "
                   "version (property). non-trivial: schedules with >= 6 sections",
           "mc_required": {"states": req["distinct"], "actions": req["actions"]},
           "mc_as_coded_violates_property": coded["violated"] is not None,
           "tv": {k: tvres[k] for k in ("events", "cases", "cases_accepted", "states")},
           "exhaustive": tier != "quick", "known_findings_seen": rep.known}
    write_evidence(prop, tier, "model_checking", cov, time.time() - t0, len(rep.violations),
                   ["diagnostics are classified by comparing them with the diagnostics each text produces on its own (calibration sessions)",
                    "one document; edits are sent up front, the gate decides when the main loop handles each"])
    return rc


def ls_batch_parse(binary, items, tag):
    """items: list of {"id","text"}; returns {id: verdict} from the language server's own parser"""
    import subprocess
    path = os.path.join(OUT, f"ls_parse_{tag}.ndjson")
    with open(path, "w") as f:
        for it in items:
            f.write(json.dumps({"id": it["id"], "text": it["text"]}) + "\n")
    env = dict(os.environ)
    env["PAROL_LS_VERIF_PARSE"] = path
    r = subprocess.run([binary, "--stdio"], env=env, stdout=subprocess.PIPE, stderr=subprocess.PIPE, text=True, timeout=1800)
    out = {}
    for l in r.stdout.splitlines():
        try:
            v = json.loads(l)
            out[v["id"]] = v["verdict"]
        except Exception:
            pass
    if len(out) < len(items):
        raise ToolError(f"parol-ls batch parse answered {len(out)} of {len(items)} texts (rc={r.returncode}): {r.stderr[-1500:]}")
    return out


def c34(prop, tier, replay):
    import p_misc
    from p_misc import corpus_pars, naming_vectors, PAR_FLAGS, ebnf_gens
    t0 = time.time()
    rep = Reporter(prop, tier)
    binary = pvlib.build_ls()
    vec_path = os.path.join(OUT, f"{prop}_{tier}.vec.ndjson")
    nmut = 6 if tier == "quick" else 60
    spaces = []
    tot = {"generated": 0, "distinct": 0}
    if replay:
        case = json.load(open(replay))["case"]
        with open(vec_path, "w") as f:
            f.write(json.dumps({"par": case["text"], "id": case["id"], "mutations": 0}) + "\n")
    else:
        with open(vec_path, "w") as f:
            files = corpus_pars()
            for i, fn in enumerate(files):
                f.write(json.dumps({"par": open(fn).read(), "id": fn, "seed": pvlib.seed() * 31 + i, "mutations": nmut}) + "\n")
            spaces.append({"space": "repository .par files", "vectors": len(files), "mutations_each": nmut})
            for v in naming_vectors():
                v.update({"seed": pvlib.seed(), "mutations": nmut})
                f.write(json.dumps(v) + "\n")
            for nprod in (150, 400, 1000):
                big = "%start S0\n%%\n" + "".join(f"S{i}: 'a{i}' [ 'o' ] S{i + 1};\n" for i in range(nprod)) + f"S{nprod}: 'z';\n"
                f.write(json.dumps({"par": big, "id": f"chain{nprod}", "seed": pvlib.seed(), "mutations": 0}) + "\n")
            spaces.append({"space": "chain grammars with 150 / 400 / 1000 productions", "vectors": 3})
            dv, _ = p_misc.decl_vectors(prop, tier)
            for j, v in enumerate(dv):
                v.update({"seed": pvlib.seed() + j, "mutations": 1 if tier == "quick" else 6})
                f.write(json.dumps(v) + "\n")
            spaces.append({"space": "Gen_Decl.tla (directive x definition shape)", "vectors": len(dv)})
            # feature templates and EBNF grammars from the TLC generators
            for gi, g in enumerate([{"module": "Gen_Flags", "constants": {"Flags": PAR_FLAGS, "MinOn": 0, "MaxOn": 2 if tier == "quick" else 4},
                                     "invariants": ["Emit"], "no_shard_consts": True}] + ebnf_gens(tier, False)[:2]):
                part = vec_path + f".{gi}"
                gen = tlc_gen(g["module"], g["constants"], g["invariants"], 1, part, spec="Spec", run_prefix=f"{prop}_{tier}_{gi}",
                              no_shard_consts=True)
                k = 0
                for j, l in enumerate(open(part)):
                    v = json.loads(l)
                    v.update({"id": f"{g['module']}{gi}-{j}", "seed": pvlib.seed() + j, "mutations": 2 if tier == "quick" else 10})
                    f.write(json.dumps(v) + "\n")
                    k += 1
                os.remove(part)
                tot["generated"] += gen["generated"]
                tot["distinct"] += gen["distinct"]
                spaces.append({"space": g["module"], "vectors": k})
    outp = os.path.join(OUT, f"{prop}_{tier}.replay.ndjson")
    pvlib.pv(["replay", "c34", vec_path, outp])
    res = read_ndjson(outp)
    summary = res[-1]["summary"]
    events = read_ndjson(outp + ".trace")
    if not events:
        raise ToolError("no texts generated")
    ls = ls_batch_parse(binary, events, f"{prop}_{tier}")
    trace_path = os.path.join(OUT, f"{prop}_{tier}.trace.ndjson")
    agree_err = 0
    with open(trace_path, "w") as f:
        for e in events:
            e["ls"] = ls[e["id"]]
            agree_err += e["parol"] == "syntax" and e["ls"] == "syntax"
            f.write(json.dumps(e, separators=(",", ":")) + "\n")

    def describe(first, ev, run_ev):
        return {"id": ev.get("id"), "text": ev.get("text"), "parol": ev.get("parol"), "ls": ev.get("ls")}, \
            f"parol: {ev.get('parol')} / parol-ls: {ev.get('ls')} on {json.dumps(ev.get('text'))[:300]}"
    tvres = tv.validate(prop, "ParseAgree", trace_path, rep, describe, nchunks=8, boundary="parse", run_prefix=f"{prop}_{tier}_tv")
    rc = rep.finish()
    cov = {"states": max(tot["distinct"] + tvres["states"], 1), "transitions": max(tot["generated"] + tvres["states"], 1),
           "traces_validated_against_impl": tvres["cases_accepted"], "samples": [{k: e[k] for k in ("id", "parol", "ls")} for e in events[:3]],
           "evaluations": len(events), "distinct_nontrivial": agree_err,
           "rule": "texts: every .par file of the repository, the naming catalogue, TLC-enumerated PAR feature templates and EBNF grammars, each as "
                   "it is and with seeded mutations (deleted/duplicated/swapped/truncated spans, inserted PAR punctuation and directives); each text "
                   "is parsed by parol's parser (parol::parse) and by the language server's parser (parol-ls batch mode behind cfg(parol_verif)); "
                   "ParseAgree.tla requires: syntax error in one iff syntax error in the other, no panic. non-trivial = texts both reject",
           "tags": summary["tags"], "spaces": spaces, "tv": {k: tvres[k] for k in ("events", "cases", "cases_accepted", "states")},
           "exhaustive": False, "known_findings_seen": rep.known}
    write_evidence(prop, tier, "exploration", cov, time.time() - t0, len(rep.violations),
                   ["bounded CFG equivalence of parol.par and parol_ls.par by TLC was not feasible (43 terminals; see DESIGN.md): the verdict rests on "
                    "differential parsing"])
    return rc


REGISTRY = {"C29": c29, "C34": c34}


# ------------------------------------------------------------------------------------------------
# C30: requests never crash the server
# ------------------------------------------------------------------------------------------------
PIECE = {"<cr>": "\r", "<lf>": "\n", "<e>": "é", "<u>": "😀", "<S>": "%start S\n", "<P>": "%%\nS: 'a';\n", "<B>": "S: { A } [ 'b' ];\n",
         "<M>": "%%\nS: \"é😀\" Sb /* é */ Sb;\nSb: \"ää\" Sc;\nSc: \"äää\";\n"}


def utf16_len(s):
    return len(s.encode("utf-16-le")) // 2


def requests_for(uri, line, ch):
    pos = {"line": line, "character": ch}
    td = {"uri": uri}
    return [
        ("textDocument/hover", {"textDocument": td, "position": pos}),
        ("textDocument/definition", {"textDocument": td, "position": pos}),
        ("textDocument/prepareRename", {"textDocument": td, "position": pos}),
        ("textDocument/rename", {"textDocument": td, "position": pos, "newName": "Zz"}),
        ("textDocument/codeAction", {"textDocument": td, "range": {"start": pos, "end": pos}, "context": {"diagnostics": []}}),
    ]


def c30_worker(binary, texts, wid):
    """runs all requests for its texts; returns (violations, nreq)"""
    viol = []
    nreq = 0
    s = lsp.LsSession(binary)
    ver = 0
    uri = f"file:///verif/c30_{wid}.par"
    opened = False
    try:
        for tid, text in texts:
            def restart():
                nonlocal s, opened
                try:
                    s.close()
                except Exception:
                    pass
                s = lsp.LsSession(binary)
                opened = False
            ver += 1
            if not opened:
                s.notify("textDocument/didOpen", {"textDocument": {"uri": uri, "languageId": "parol", "version": ver, "text": text}})
                opened = True
            else:
                s.notify("textDocument/didChange", {"textDocument": {"uri": uri, "version": ver}, "contentChanges": [{"text": text}]})
            lines = text.split("\n")
            maxc = max(utf16_len(l) for l in lines) + 2
            reqs = [("textDocument/documentSymbol", {"textDocument": {"uri": uri}}),
                    ("textDocument/formatting", {"textDocument": {"uri": uri}, "options": {"tabSize": 4, "insertSpaces": True}})]
            # positions: every line incl. one past the end; columns 0..longest+2 (all for short texts, a spread for long ones)
            cols = list(range(maxc + 1)) if maxc <= 12 else sorted(set([0, 1, 2, maxc // 2, maxc - 2, maxc - 1, maxc]))
            lns = list(range(len(lines) + 1)) if len(lines) <= 8 else sorted(set([0, 1, len(lines) // 2, len(lines) - 1, len(lines)]))
            for ln in lns:
                for ch in cols:
                    reqs += requests_for(uri, ln, ch)
            for method, params in reqs:
                nreq += 1
                r = s.request(method, params, timeout=60)
                if r is None:
                    pt = s.panic_text()
                    viol.append({"id": tid, "text": text, "method": method, "params": params,
                                 "outcome": pt or ("server exited" if not s.alive() else "no response within 60 s")})
                    restart()
                    break
    finally:
        try:
            s.close()
        except Exception:
            pass
    return viol, nreq


def c30(prop, tier, replay):
    from p_misc import corpus_pars
    import random
    t0 = time.time()
    rep = Reporter(prop, tier)
    binary = pvlib.build_ls()
    vec_path = os.path.join(OUT, f"{prop}_{tier}.vec.ndjson")
    texts = []
    g = {"generated": 0, "distinct": 0}
    if replay:
        case = json.load(open(replay))["case"]
        texts = [(case["id"], case["text"])]
    else:
        pieces = {"a", "<e>", "<u>", "<cr>", "<lf>", ":", "<S>", "<P>", "<B>", "<M>"}
        g = tlc_gen("Gen_Text", {"Pieces": pieces, "MaxLen": 3 if tier == "quick" else 4}, ["Emit"], 1, vec_path, spec="Spec",
                    run_prefix=f"{prop}_{tier}", no_shard_consts=True)
        for i, v in enumerate(read_ndjson(vec_path)):
            texts.append((f"t{i}", "".join(PIECE.get(p, p) for p in v["text"])))
        nsmall = len(texts)
        rnd = random.Random(pvlib.seed())
        files = corpus_pars()
        files = files[::8] if tier == "quick" else files
        for f in files:
            texts.append((f, open(f).read()))
        spaces = [{"space": "Gen_Text.tla texts", "vectors": nsmall}, {"space": "repository .par files", "vectors": len(files)}]
    nw = 8
    chunks = [texts[i::nw] for i in range(nw)]
    nreq = 0
    with ThreadPoolExecutor(max_workers=nw) as ex:
        for viol, n in ex.map(lambda a: c30_worker(binary, a[1], a[0]), enumerate(chunks)):
            nreq += n
            for v in viol:
                rep.violation({"id": v["id"], "text": v["text"], "method": v["method"], "position": v["params"].get("position") or v["params"].get("range")},
                              f"{v['method']} at {json.dumps(v['params'].get('position') or v['params'].get('range'))} on {v['text'][:80]!r}: {v['outcome'][:300]}")
    rc = rep.finish()
    cov = {"evaluations": nreq, "distinct_nontrivial": len(texts),
           "rule": "texts: every sequence of up to 3 (4) pieces over {a, é (2 bytes), 😀 (4 bytes, 2 UTF-16 units), CR, LF, ':', and four PAR fragments, one with multi-byte characters in front of identifiers on the same line} "
                   "enumerated by Gen_Text.tla, plus repository grammars; for each text the real parol-ls (LSP over stdio) is asked documentSymbol, "
                   "formatting and - at every line 0..lines and every UTF-16 column 0..longest line+2 - hover, definition, prepareRename, rename and "
                   "codeAction; every request must be answered (result, null or error response). A missing answer / dead process is a violation "
                   "(the panic text is taken from the server's stderr). non-trivial: all texts",
           "samples": [{"id": t[0], "text": t[1][:60]} for t in texts[:3]], "tlc_states": g["distinct"],
           "spaces": spaces if not replay else [], "known_findings_seen": rep.known}
    write_evidence(prop, tier, "exploration", cov, time.time() - t0, len(rep.violations),
                   ["pos_to_offset staying inside the text is observed only through crashes (it is not exposed over LSP)"])
    return rc


REGISTRY.update({"C30": c30})


# ------------------------------------------------------------------------------------------------
# C27 / C28: formatting and rename through the real server, decided by LsText.tla
# ------------------------------------------------------------------------------------------------
def pos_of(text, off):
    """byte offset -> LSP position (UTF-16 columns)"""
    b = text.encode()
    before = b[:off].decode()
    line = before.count("\n")
    col = utf16_len(before[before.rfind("\n") + 1:])
    return {"line": line, "character": col}


def off_of(text, pos):
    """LSP position -> character index into text (clamped to the line)"""
    lines = text.split("\n")
    ln = pos["line"]
    if ln >= len(lines):
        return len(text)
    base = sum(len(x) + 1 for x in lines[:ln])
    u = 0
    for i, ch in enumerate(lines[ln]):
        if u >= pos["character"]:
            return base + i
        u += 2 if ord(ch) > 0xFFFF else 1
    return base + len(lines[ln])


def apply_edits(text, edits):
    spans = sorted(((off_of(text, e["range"]["start"]), off_of(text, e["range"]["end"]), e["newText"]) for e in edits), key=lambda x: (x[0], x[1]))
    out = []
    last = 0
    for s, e, new in spans:
        if s < last:
            return None          # overlapping edits
        out.append(text[last:s])
        out.append(new)
        last = e
    out.append(text[last:])
    return "".join(out)


FMT_OPTS = [(e, s, m) for e in (True, False) for s in (True, False) for m in (100, 20)]


class LsDoc:
    def __init__(self, binary, wid):
        self.binary = binary
        self.uri = f"file:///verif/doc_{wid}.par"
        self.s = None
        self.ver = 0
        self.start()

    def start(self):
        self.s = lsp.LsSession(self.binary)
        self.opened = False

    def set_text(self, text):
        self.ver += 1
        if not self.opened:
            self.s.notify("textDocument/didOpen", {"textDocument": {"uri": self.uri, "languageId": "parol", "version": self.ver, "text": text}})
            self.opened = True
        else:
            self.s.notify("textDocument/didChange", {"textDocument": {"uri": self.uri, "version": self.ver}, "contentChanges": [{"text": text}]})

    def req(self, method, params, timeout=90):
        r = self.s.request(method, params, timeout=timeout)
        if r is None:
            why = self.s.panic_text() or ("server exited" if not self.s.alive() else "no response")
            try:
                self.s.close()
            except Exception:
                pass
            self.start()
            return None, why
        return r, None

    def close(self):
        try:
            self.s.close()
        except Exception:
            pass


def fmt_once(doc, text, opt):
    """(formatted text | None, why)"""
    e, s, m = opt
    props = {"formatting.empty_line_after_prod": e, "formatting.prod_semicolon_on_nl": s, "formatting.max_line_length": m}
    doc.s.notify("workspace/didChangeConfiguration", {"settings": props})
    doc.set_text(text)
    o = {"tabSize": 4, "insertSpaces": True}
    o.update(props)
    r, why = doc.req("textDocument/formatting", {"textDocument": {"uri": doc.uri}, "options": o})
    if r is None:
        return None, "crash(C30): " + why
    if r.get("error") or r.get("result") is None:
        return None, "no result: " + json.dumps(r.get("error"))[:200]
    t = apply_edits(text, r["result"])
    if t is None:
        return None, "overlapping edits"
    return t, None


def scan_texts(texts, prefix):
    """[(id, text)] -> {id: scan event} for the texts parol accepts"""
    vp = os.path.join(OUT, f"{prefix}.scan.vec.ndjson")
    with open(vp, "w") as f:
        for tid, t in texts:
            f.write(json.dumps({"op": "scan", "id": tid, "text": t}) + "\n")
    outp = os.path.join(OUT, f"{prefix}.scan.out.ndjson")
    pvlib.pv(["replay", "lsx", vp, outp])
    return {e["id"]: e for e in read_ndjson(outp + ".trace")}


COMMENTED = """// leading comment
%start S // after start
%title "t" /* block */
%comment "c"
// before user type
%user_type MyT = my::T // trailing
%nt_type A = my::NtA
%line_comment "//"
%block_comment "/\\*" "\\*/"
%on B %enter M2 // on
/* before scanner */
%scanner M2 { // in scanner
    %auto_ws_off /* x */
    %on B %enter INITIAL
} // after scanner
%% // after %%
/* p1 */ S /* p2 */ : /* p3 */ A /* p4 */ B // p5
    C2 { /* in rep */ D // d
    } [ E /* in opt */ ] ( 'x' /* g1 */ | /* g2 */ 'y' ) /* p6 */ ; // p7
// between
A: 'a'^ /* clip */ | "x"@mem : MyT // alt2
 | /* empty alt */ ;
B: <INITIAL, M2> /* st */ 'b';
C2: <M2>'c';
D: /d/ ?= 'e' // la
 ;
E: 'e' | 'a-very-long-terminal-number-one' 'a-very-long-terminal-number-two' 'a-very-long-terminal-number-three' 'four' // long
 ;
// trailing comment
"""


def ls_texts(prop, tier):
    """grammar texts for C27/C28: repository files, feature templates, a comment-heavy text"""
    from p_misc import corpus_pars, PAR_FLAGS
    texts = [("commented", COMMENTED), ("commented-crlf", COMMENTED.replace("\n", "\r\n"))]
    files = corpus_pars()
    for fn in files:
        t = open(fn).read()
        if len(t) < (20000 if tier == "quick" else 200000):
            texts.append((fn, t))
    part = os.path.join(OUT, f"{prop}_{tier}.flags.ndjson")
    g = tlc_gen("Gen_Flags", {"Flags": PAR_FLAGS, "MinOn": 0, "MaxOn": 2 if tier == "quick" else 3}, ["Emit"], 1, part, spec="Spec",
                run_prefix=f"{prop}_{tier}_flags", no_shard_consts=True)
    vp = os.path.join(OUT, f"{prop}_{tier}.tmpl.vec.ndjson")
    with open(vp, "w") as f:
        for j, l in enumerate(open(part)):
            v = json.loads(l)
            v.update({"id": f"flags-{j}", "mutations": 0})
            f.write(json.dumps(v) + "\n")
    outp = os.path.join(OUT, f"{prop}_{tier}.tmpl.out.ndjson")
    pvlib.pv(["replay", "c34", vp, outp])
    for e in read_ndjson(outp + ".trace"):
        texts.append((e["id"], e["text"]))
    return texts, g


GAPINFO = {}


def strip_comments(t):
    import re
    t = re.sub(r'/\*.*?\*/', '', t)
    return re.sub(r'(?<!")//[^\n"]*\n', '\n', t)


def gap_texts(prop, tier, extra_bases=()):
    """one comment (block / line) at every token boundary of a comment-free base text: `comments anywhere`"""
    base = strip_comments(COMMENTED)
    bases = [("base", base)] + [(f"base-{tid}", t) for tid, t in extra_bases]
    sc = scan_texts(bases, f"{prop}_{tier}_base")
    if "base" not in sc:
        raise ToolError("base text of the comment generator is not a valid grammar")
    out = []
    for bid, btext in bases[1:]:
        if bid not in sc:
            continue
        b2 = btext.encode()
        for kind, c in (("block", "/* c */ "), ("line", "// c\n")):
            for i, g in enumerate(sc[bid]["gaps"] + [{"s": len(b2), "tok": "<eof>", "ctx": "eof"}]):
                tid = f"gap-{bid}-{kind}-{i}"
                GAPINFO[tid] = {"comment": kind, "before_token": g["tok"], "context": g["ctx"], "gap": i, "base": bid}
                out.append((tid, (b2[:g["s"]] + c.encode() + b2[g["s"]:]).decode()))
    bb = base.encode()
    gaps = sc["base"]["gaps"] + [{"s": len(bb), "tok": "<eof>", "ctx": "eof"}]
    for kind, c in (("block", "/* c */ "), ("line", "// c\n")):
        for i, g in enumerate(gaps):
            tid = f"gap-{kind}-{i}"
            GAPINFO[tid] = {"comment": kind, "before_token": g["tok"], "context": g["ctx"], "gap": i}
            out.append((tid, (bb[:g["s"]] + c.encode() + bb[g["s"]:]).decode()))
    # two comments: adjacent gaps (quick: every 3rd) and, thorough, random pairs
    import random
    rnd = random.Random(pvlib.seed())
    pairs = [(i, i + 1) for i in range(0, len(gaps) - 1, 3 if tier == "quick" else 1)]
    pairs += [(i, i) for i in range(0, len(gaps), 5 if tier == "quick" else 1)]
    if tier != "quick":
        pairs += [tuple(sorted(rnd.sample(range(len(gaps)), 2))) for _ in range(2500)]
    for n, (i, j) in enumerate(pairs):
        k1, k2 = rnd.choice(["block", "line"]), rnd.choice(["block", "line"])
        c1 = "/* c1 */ " if k1 == "block" else "// c1\n"
        c2 = "/* c2 */ " if k2 == "block" else "// c2\n"
        tid = f"gap2-{i}-{j}-{k1}-{k2}"
        GAPINFO[tid] = {"comment": f"{k1},{k2}", "before_token": [gaps[i]["tok"], gaps[j]["tok"]], "context": [gaps[i]["ctx"], gaps[j]["ctx"]], "gap": [i, j]}
        a, b2 = gaps[i]["s"], gaps[j]["s"]
        out.append((tid, (bb[:a] + c1.encode() + bb[a:b2] + c2.encode() + bb[b2:]).decode()))
    if tier != "quick":
        # three comments at random boundaries
        for n in range(1500):
            i, j, k3 = sorted(rnd.sample(range(len(gaps)), 3))
            ks = [rnd.choice(["block", "line"]) for _ in range(3)]
            cs = [("/* c%d */ " % (x + 1)) if ks[x] == "block" else ("// c%d\n" % (x + 1)) for x in range(3)]
            tid = f"gap3-{i}-{j}-{k3}-{'-'.join(ks)}"
            GAPINFO[tid] = {"comment": ",".join(ks), "before_token": [gaps[x]["tok"] for x in (i, j, k3)],
                            "context": [gaps[x]["ctx"] for x in (i, j, k3)], "gap": [i, j, k3]}
            p1, p2, p3 = gaps[i]["s"], gaps[j]["s"], gaps[k3]["s"]
            out.append((tid, (bb[:p1] + cs[0].encode() + bb[p1:p2] + cs[1].encode() + bb[p2:p3] + cs[2].encode() + bb[p3:]).decode()))
    return out


def c27(prop, tier, replay):
    t0 = time.time()
    rep = Reporter(prop, tier)
    binary = pvlib.build_ls()
    g = {"generated": 0, "distinct": 0}
    if replay:
        case = json.load(open(replay))["case"]
        texts = [(case["id"], case["text"])]
        opts = [tuple(case["opt"])] if case.get("opt") else FMT_OPTS
    else:
        texts, g = ls_texts(prop, tier)
        opts = FMT_OPTS
        extra_bases = [] if tier == "quick" else sorted([t for t in texts if t[0].startswith("flags-")], key=lambda t: -len(t[1]))[:3]
        texts += gap_texts(prop, tier, extra_bases)
    scans = scan_texts(texts, f"{prop}_{tier}")
    valid = [(tid, t) for tid, t in texts if tid in scans]
    if not valid:
        raise ToolError("no valid texts")
    work = []
    for i, (tid, t) in enumerate(valid):
        # quick: every text under 2 option sets (rotating), the commented texts under all
        os_ = opts if (tier != "quick" or tid.startswith("commented") or replay) else [opts[i % len(opts)], opts[(i * 3 + 5) % len(opts)]]
        for o in os_:
            work.append((tid, t, o))
    nw = 8
    chunks = [work[i::nw] for i in range(nw)]
    tmap = dict(valid)

    def worker(a):
        wid, items = a
        doc = LsDoc(binary, f"c27_{wid}")
        out = []
        try:
            for tid, t, o in items:
                b, why = fmt_once(doc, t, o)
                if b is None:
                    out.append({"id": tid, "opt": o, "fail": why})
                    continue
                b2, why2 = fmt_once(doc, b, o)
                out.append({"id": tid, "opt": o, "b": b, "b2": b2 if b2 is not None else "<<" + str(why2) + ">>"})
        finally:
            doc.close()
        return out
    vec_path = os.path.join(OUT, f"{prop}_{tier}.vec.ndjson")
    nofmt = 0
    with ThreadPoolExecutor(max_workers=nw) as ex, open(vec_path, "w") as f:
        for res in ex.map(worker, enumerate(chunks)):
            for r in res:
                if "fail" in r:
                    nofmt += 1
                    if r["fail"].startswith("crash"):
                        rep.violation({"id": r["id"], "opt": list(r["opt"]), "text": tmap[r["id"]], "crash": True, "gap": GAPINFO.get(r["id"])}, f"formatting {r['id']} with {r['opt']}: {r['fail']}")
                    continue
                f.write(json.dumps({"op": "format", "id": r["id"], "a": tmap[r["id"]], "b": r["b"], "b2": r["b2"],
                                    "info": {"opt": list(r["opt"])}}) + "\n")
    outp = os.path.join(OUT, f"{prop}_{tier}.replay.ndjson")
    pvlib.pv(["replay", "lsx", vec_path, outp])
    summary = read_ndjson(outp)[-1]["summary"]
    trace_path = outp + ".trace"
    vecs = {(v["id"], tuple(v["info"]["opt"])): v for v in read_ndjson(vec_path)}

    def describe(first, ev, run_ev):
        v = vecs.get((ev.get("id"), tuple(ev["info"]["opt"])), {})
        return {"id": ev.get("id"), "opt": ev["info"]["opt"], "text": v.get("a"), "why": ev.get("why"), "gap": GAPINFO.get(ev.get("id"))}, \
            f"format {ev.get('id')} {GAPINFO.get(ev.get('id')) or ''} opts(empty_line_after_prod, semicolon_on_nl, max_line)={ev['info']['opt']}: {ev.get('why')}"
    tvres = tv.validate(prop, "LsText", trace_path, rep, describe, nchunks=8, boundary="lsx", run_prefix=f"{prop}_{tier}_tv")
    rc = rep.finish()
    ncomm = sum(1 for tid, _ in valid if scans[tid]["comments"])
    cov = {"states": max(tvres["states"], 1), "transitions": max(tvres["states"], 1), "traces_validated_against_impl": tvres["cases_accepted"],
           "evaluations": len(vecs), "distinct_nontrivial": ncomm, "samples": [{"id": v["id"], "opt": v["info"]["opt"]} for v in list(vecs.values())[:3]],
           "rule": "texts: repository .par files, TLC-enumerated PAR feature templates (Gen_Flags.tla), a text with comments at every place the grammar "
                   "allows one (LF and CRLF); options: all 8 combinations of empty_line_after_prod x prod_semicolon_on_nl x max_line_length {100, 20} "
                   "(quick: two per text, all for the commented texts). The real parol-ls formats the text over LSP (textDocument/formatting after "
                   "workspace/didChangeConfiguration), the driver applies the edits and formats the result again; the harness reads both texts with "
                   "parol's own front end (model2) and extracts the comments by running parol.par on them through the run-time parser; LsText.tla accepts "
                   "the step iff model' = model, comments' = comments and the second formatting changed nothing. non-trivial = texts with comments",
           "tags": summary["tags"], "no_format_result": nofmt, "tlc_states": g["distinct"],
           "tv": {k: tvres[k] for k in ("events", "cases", "cases_accepted", "states")}, "known_findings_seen": rep.known}
    write_evidence(prop, tier, "exploration", cov, time.time() - t0, len(rep.violations), [])
    return rc


REGISTRY.update({"C27": c27})


def classify_occ(o):
    """'nt' | 'state' | None for an identifier occurrence reported by the harness (parol.par parse tree path)"""
    path = o["path"]
    if "UserTypeName" in path or "MemberName" in path:
        return None
    if "ScannerStateDirectives" in path:
        return "state"
    if "IdentifierList" in path:
        return "state" if "TokenWithStates" in path else "nt"
    last = path[-1] if path else ""
    if last == "ScannerState":
        return "state"
    if last in ("Production", "NonTerminal", "StartDeclaration"):
        return "nt"
    if last == "Declaration":
        return "nt" if o["prev"] == "%nt_type" else None
    return None


def c28(prop, tier, replay):
    t0 = time.time()
    rep = Reporter(prop, tier)
    binary = pvlib.build_ls()
    g = {"generated": 0, "distinct": 0}
    only = None
    if replay:
        case = json.load(open(replay))["case"]
        texts = [(case["id"], case["text"])]
        only = (case["old"], case.get("at"))
    else:
        texts, g = ls_texts(prop, tier)
    scans = scan_texts(texts, f"{prop}_{tier}")
    valid = [(tid, t) for tid, t in texts if tid in scans]
    work = []     # (tid, text, kind, old, new, occurrence offsets, request offset)
    nsym = 0
    for tid, t in valid:
        sc = scans[tid]
        nts, states = set(sc["nts"]), set(sc["states"])
        occs = [(o, classify_occ(o)) for o in sc["occ"]]
        by = {}
        for o, k in occs:
            if k:
                by.setdefault((k, o["text"]), []).append(o["start"])
        allnames = {o["text"] for o, _ in occs}
        for (k, name), starts in sorted(by.items()):
            if (k == "nt" and (name == sc["start"] or name not in nts or name in states)) or \
               (k == "state" and (name == "INITIAL" or name not in states or name in nts)):
                continue
            nsym += 1
            new = "Zq9" if k == "nt" else "ZQ8"
            while new in allnames:
                new += "x"
            # request positions: quick = first and last occurrence (start and last character), thorough = every occurrence
            sel = starts if tier != "quick" else sorted({starts[0], starts[-1]})
            for st in sel:
                for delta in ((0, len(name) - 1) if tier != "quick" else ((0,) if st == starts[0] else (len(name) - 1,))):
                    if only and (name != only[0] or (only[1] is not None and st + delta != only[1])):
                        continue
                    work.append((tid, t, k, name, new, starts, st + delta))
    if not work:
        raise ToolError("no renameable occurrences")
    # group by text so that a document is opened once
    by_text = {}
    for w in work:
        by_text.setdefault(w[0], []).append(w)
    groups = sorted(by_text.values(), key=len, reverse=True)
    nw = 8
    chunks = [[] for _ in range(nw)]
    for i, gr in enumerate(groups):
        chunks[min(range(nw), key=lambda j: sum(len(x) for x in chunks[j]))].append(gr)

    def worker(a):
        wid, grs = a
        doc = LsDoc(binary, f"c28_{wid}")
        out = []
        try:
            for gr in grs:
                doc.set_text(gr[0][1])
                for tid, t, k, old, new, starts, at in gr:
                    pos = pos_of(t, at)
                    pr, why = doc.req("textDocument/prepareRename", {"textDocument": {"uri": doc.uri}, "position": pos})
                    if pr is None:
                        doc.set_text(t)
                        out.append((tid, k, old, new, starts, at, None, "crash(C30) in prepareRename: " + why, None))
                        continue
                    r, why = doc.req("textDocument/rename", {"textDocument": {"uri": doc.uri}, "position": pos, "newName": new})
                    if r is None:
                        doc.set_text(t)
                        out.append((tid, k, old, new, starts, at, None, "crash(C30) in rename: " + why, None))
                        continue
                    edits = []
                    res = r.get("result")
                    if res:
                        for dc in res.get("documentChanges") or []:
                            edits += dc.get("edits", [])
                        for es in (res.get("changes") or {}).values():
                            edits += es
                    b = apply_edits(t, edits)
                    out.append((tid, k, old, new, starts, at, b if b is not None else t, None if b is not None else "overlapping edits",
                                {"prepare": pr.get("result"), "n_edits": len(edits), "error": r.get("error")}))
        finally:
            doc.close()
        return out
    vec_path = os.path.join(OUT, f"{prop}_{tier}.vec.ndjson")
    tmap = dict(valid)
    n = 0
    with ThreadPoolExecutor(max_workers=nw) as ex, open(vec_path, "w") as f:
        for res in ex.map(worker, enumerate(chunks)):
            for tid, k, old, new, starts, at, b, fail, extra in res:
                t = tmap[tid]
                if fail and b is None:
                    rep.violation({"id": tid, "text": t, "old": old, "at": at, "crash": True}, f"rename {old} at byte {at} of {tid}: {fail}")
                    continue
                bb = t.encode()
                exp = []
                last = 0
                for s0 in sorted(starts):
                    exp.append(bb[last:s0])
                    exp.append(new.encode())
                    last = s0 + len(old.encode())
                exp.append(bb[last:])
                n += 1
                f.write(json.dumps({"op": "renameNT" if k == "nt" else "renameState", "id": f"{tid}@{at}", "a": t, "b": b, "exp": b"".join(exp).decode(),
                                    "old": old, "new": new, "info": {"text_id": tid, "at": at, "occurrences": len(starts), "server": extra, "note": fail}}) + "\n")
    outp = os.path.join(OUT, f"{prop}_{tier}.replay.ndjson")
    pvlib.pv(["replay", "lsx", vec_path, outp])
    summary = read_ndjson(outp)[-1]["summary"]
    vecs = {v["id"]: v for v in read_ndjson(vec_path)}

    def describe(first, ev, run_ev):
        v = vecs.get(ev.get("id"), {})
        return {"id": ev["info"]["text_id"], "text": v.get("a"), "old": v.get("old"), "at": ev["info"]["at"], "why": ev.get("why"), "kind": ev.get("op")}, \
            f"{ev.get('op')} {v.get('old')} -> {v.get('new')} requested at byte {ev['info']['at']} of {ev['info']['text_id']} " \
            f"({ev['info']['occurrences']} occurrences, server made {(ev['info'].get('server') or {}).get('n_edits')} edits): {ev.get('why')}"
    tvres = tv.validate(prop, "LsText", outp + ".trace", rep, describe, nchunks=8, boundary="lsx", run_prefix=f"{prop}_{tier}_tv")
    rc = rep.finish()
    cov = {"states": max(tvres["states"], 1), "transitions": max(tvres["states"], 1), "traces_validated_against_impl": tvres["cases_accepted"],
           "evaluations": n, "distinct_nontrivial": nsym, "samples": [{"id": v["id"], "old": v["old"], "new": v["new"]} for v in list(vecs.values())[:3]],
           "rule": "texts: repository .par files, TLC-enumerated PAR feature templates (Gen_Flags.tla), a comment-heavy text (LF / CRLF); for every "
                   "non-terminal other than the start symbol and every scanner state other than INITIAL (names that are both are skipped), occurrences "
                   "found by running parol.par on the text through the run-time parser (definitions, references, %nt_type, %on / %skip lists, <state "
                   "lists>, %enter / %push targets, %scanner); the real parol-ls gets prepareRename + rename at the first and last occurrence "
                   "(thorough: every occurrence, first and last character) with a fresh name; the driver applies the WorkspaceEdit; LsText.tla accepts "
                   "iff the result is a valid grammar whose model is RenameNT / RenameState of the original model, the comments are unchanged and the "
                   "text equals the original with exactly the occurrences of that symbol replaced. non-trivial = renamed symbols",
           "tags": summary["tags"], "tlc_states": g["distinct"], "tv": {k: tvres[k] for k in ("events", "cases", "cases_accepted", "states")},
           "known_findings_seen": rep.known}
    write_evidence(prop, tier, "exploration", cov, time.time() - t0, len(rep.violations), [])
    return rc


REGISTRY.update({"C28": c28})
