"""Smaller self-contained properties: generic 'TLC generates vectors -> harness replays -> (optional) TLC validates
recorded events' driver."""
import os, json, time
import pvlib, tv
from pvlib import Reporter, write_evidence, tlc_gen, pv, read_ndjson, log, OUT, ToolError


def simple_check(prop, tier, replay, gens, kind, rule, tv_module=None, boundary=None, tv_invariants=(),
                 pv_env=None, assumptions=(), nontrivial_tags=None, level="model_checking", describe=None,
                 exhaustive=True, extra_vectors=()):
    """gens: list of dict(module, constants, invariants, spec, nshards, no_shard_consts, simulate, depth)"""
    t0 = time.time()
    rep = Reporter(prop, tier)
    vec_path = os.path.join(OUT, f"{prop}_{tier}.vec.ndjson")
    tot = {"generated": 0, "distinct": 0, "wall": 0.0}
    space_cov = []
    if replay:
        case = json.load(open(replay))["case"]
        with open(vec_path, "w") as f:
            f.write(json.dumps(case["vec"]) + "\n")
    else:
        with open(vec_path, "w") as fall:
            for gi, g in enumerate(gens):
                part = vec_path + f".{gi}"
                gen = tlc_gen(g["module"], g["constants"], g["invariants"], g.get("nshards", 1), part,
                              spec=g.get("spec", "Spec"), run_prefix=f"{prop}_{tier}_{gi}",
                              no_shard_consts=g.get("no_shard_consts", False), simulate=g.get("simulate"),
                              depth=g.get("depth", 20), timeout=g.get("timeout", 3000))
                if gen["violated"]:
                    raise ToolError(f"spec invariant {gen['violated']} violated in {g['module']}:\n" + gen["out"][-3000:])
                if gen["vectors"] == 0:
                    raise ToolError(f"{g['module']}: no vectors generated (vacuous run)")
                # generators may carry a cap: every k-th vector is used when a universe yields more than `cap` vectors
                every = 1
                if g.get("cap"):
                    with open(part) as f:
                        nl = sum(1 for _ in f)
                    every = max(1, -(-nl // g["cap"]))
                seen = set()
                for li, l in enumerate(open(part)):
                    if l not in seen and li % every == 0:
                        seen.add(l)
                        fall.write(l)
                os.remove(part)
                for k in ("generated", "distinct", "wall"):
                    tot[k] += gen[k]
                space_cov.append({"module": g["module"], "every": every,
                                  "constants": {k: (sorted(v) if isinstance(v, (set, frozenset)) else v) for k, v in g["constants"].items()},
                                  "mode": "exhaustive" if not g.get("simulate") else f"tlc -simulate num={g['simulate']} x {g.get('nshards', 1)} seeds",
                                  "states": gen["distinct"], "vectors": len(seen)})
    if extra_vectors and not replay:
        with open(vec_path, "a") as f:
            for v in extra_vectors:
                f.write(json.dumps(v) + "\n")
        space_cov.append({"module": "additional inputs (repository files / catalogue)", "vectors": len(extra_vectors)})
    outp = os.path.join(OUT, f"{prop}_{tier}.replay.ndjson")
    pv(["replay", kind, vec_path, outp], env=pv_env)
    res = read_ndjson(outp)
    summary = res[-1]["summary"]
    for r in res[:-1]:
        if "tool_error" in r:
            raise ToolError(r["tool_error"])
        m = r["mismatch"]
        rep.violation({"vec": r["vec"], "what": m["what"], "actual": m["actual"]},
                      f"{m['what']}: expected {json.dumps(m['expected'])[:300]} got {json.dumps(m['actual'])[:300]} on {json.dumps(r['vec'])[:400]}")
    tvres = {"events": 0, "cases": 0, "cases_accepted": 0, "states": 0, "wall": 0}
    if tv_module:
        if summary["trace_events"] == 0:
            raise ToolError("no events recorded (vacuous TV leg)")
        d = describe or (lambda first, ev, run_ev: ({"vec": ev.get("vec", {k: v for k, v in ev.items() if k != "ev"})},
                                                   json.dumps(ev)[:400]))
        tvres = tv.validate(prop, tv_module, outp + ".trace", rep, d, nchunks=16, boundary=boundary,
                            invariants=tv_invariants, run_prefix=f"{prop}_{tier}_tv")
    samples = []
    with open(vec_path) as f:
        for i, l in enumerate(f):
            if i in (0, summary["vectors"] // 2, summary["vectors"] - 1):
                samples.append(json.loads(l))
    rc = rep.finish()
    nt = summary["nontrivial"] if not nontrivial_tags else max(summary["tags"].get(t, 0) for t in nontrivial_tags)
    cov = {"states": max(tot["distinct"] + tvres["states"], 1), "transitions": max(tot["generated"] + tvres["states"], 1),
           "traces_validated_against_impl": tvres["cases_accepted"] if tv_module else summary["vectors"], "samples": samples,
           "evaluations": summary["evaluations"], "distinct_nontrivial": nt,
           "rule": rule, "tags": summary["tags"], "spaces": space_cov,
           "tv": {k: tvres[k] for k in ("events", "cases", "cases_accepted", "states")},
           "exhaustive": exhaustive, "known_findings_seen": rep.known, "tlc_wall_s": round(tot["wall"] + tvres["wall"], 1)}
    write_evidence(prop, tier, level, cov, time.time() - t0, len(rep.violations), assumptions)
    return rc


def c31(prop, tier, replay):
    maxlen = 4 if tier == "quick" else 5
    syms = {1, 2, 3} if tier == "quick" else {1, 2, 3, 4}
    return simple_check(
        prop, tier, replay,
        [{"module": "Recovery", "constants": {"Syms": syms, "MaxLen": maxlen}, "invariants": ["Emit", "DistLaws"],
          "spec": "GSpec", "no_shard_consts": True}],
        "c31",
        f"all pairs (scanned, expected) of token sequences over {len(syms)} symbols with lengths 0..{maxlen}, enumerated by the pair machine of "
        "Recovery.tla together with the minimal edit distance (row-wise DP; metric laws model-checked); the real "
        "Recovery::levenshtein_distance (through the cfg(parol_verif) re-export) must report that distance, and Trace_Recovery.tla checks "
        "for each recorded script that applying it by the consumption rule of adjust_token_stream yields the expected sequence and "
        "that its non-keep length equals the reported distance; non-trivial: distance > 0",
        tv_module="Trace_Recovery", boundary="lev", nontrivial_tags=["nonzero_distance"])


def c32(prop, tier, replay):
    ks = [1, 2, 3] if tier == "quick" else [0, 1, 2, 3, 5, 9, 10]
    maxops = 4
    gens = [{"module": "KTuple", "constants": {"K": k, "Terms": {0, 1, 2}, "MaxOps": maxops, "NRegs": 2 if tier == "quick" else 3},
             "invariants": ["Emit", "Laws"], "spec": "Spec", "no_shard_consts": True} for k in ks]
    return simple_check(
        prop, tier, replay, gens, "c32",
        f"every sequence of {maxops} operations (new, eps, end, push t, k_concat with another register, of) over the registers, for "
        f"k in {ks}, enumerated by the KTuple.tla machine with the abstract sequence value after each step (algebraic laws model-checked); "
        "the harness replays each sequence on the packed Terminals (and the TerminalString wrapper) for every max_terminal_index at the "
        "bit-width boundaries 2^b-2, 2^b-1 (b=2..11) and compares iter(), get(i), len, is_eps, is_empty, is_k_complete, k_len after "
        "every step, and Eq/Ord (equal iff same sequence, antisymmetric, transitive) on the final registers; non-trivial: all",
        nontrivial_tags=["any"])


def ebnf_gens(tier, emit_lang):
    core = {"NTs": {"S"}, "Ts": {"a", "b"}, "MaxTok": 5 if tier == "quick" else 6, "MaxDepth": 2, "MaxProds": 1,
            "LangN": 4, "EmitLang": emit_lang, "PieceMode": False, "MaxPieces": 99}
    wide = {"NTs": {"S", "A"}, "Ts": {"a", "b"}, "MaxTok": 8, "MaxDepth": 3, "MaxProds": 2, "LangN": 4, "EmitLang": emit_lang,
            "PieceMode": False, "MaxPieces": 99}
    # several groups / optionals / repetitions with alternatives inside one production
    pieces = {"NTs": {"S"}, "Ts": {"a", "b"}, "MaxTok": 13 if tier == "quick" else 17, "MaxDepth": 2, "MaxProds": 1, "LangN": 4,
              "EmitLang": emit_lang, "PieceMode": True, "MaxPieces": 4 if tier == "quick" else 5}
    return [{"module": "Gen_Ebnf", "constants": core, "invariants": ["Emit"], "no_shard_consts": True},
            {"module": "Gen_Ebnf", "constants": pieces, "invariants": ["Emit"], "no_shard_consts": True},
            {"module": "Gen_Ebnf", "constants": wide, "invariants": ["Emit"], "no_shard_consts": True,
             "simulate": 150 if tier == "quick" else 4000, "nshards": 16, "depth": 30}]


def c09(prop, tier, replay):
    return simple_check(
        prop, tier, replay, ebnf_gens(tier, False), "canon",
        "EBNF grammars as token sequences over symbols and ( ) [ ] { } | : every balanced right-hand side of up to 5 (6) tokens, nesting 2, "
        "for one production (exhaustive) plus random walks with two productions, 8 tokens, nesting 3; each is written as PAR text for both "
        "grammar types, also with the second non-terminal renamed to a helper name parol would generate (<X>Opt, <X>List, <X>Group, ..0); "
        "parol's front end canonicalises it; Xform.tla checks on the recorded pair that every user non-terminal (the start symbol in "
        "particular) has the same bounded language in the BNF result as its EBNF definition (LangE of Ebnf.tla: groups, optionals, Kleene "
        "star, alternatives) and that the result is plain BNF. non-trivial: helper non-terminals were introduced",
        tv_module="Xform", boundary="xform", nontrivial_tags=["helpers_introduced"], pv_env={"PV_LANGN": 4}, exhaustive=False,
        describe=lambda first, ev, run_ev: ({"vec": ev.get("vec"), "kind": "canon", "type": ev.get("type"), "before": ev.get("before")},
                                            f"canon {ev.get('type')}: before {json.dumps(ev.get('before'))[:300]} after {json.dumps(ev.get('after'))[:400]}"))


def corpus_pars():
    import glob
    out = []
    for pat in ("/repo/examples/**/*.par", "/repo/crates/parol/tests/data/**/*.par", "/repo/crates/parol-ls/data/**/*.par",
                "/repo/crates/parol/src/parser/parol.par", "/repo/crates/parol-ls/parol_ls.par", "/repo/crates/parol/data/**/*.par"):
        out += sorted(glob.glob(pat, recursive=True))
    seen = set()
    res = []
    for f in out:
        if f in seen or "-exp" in os.path.basename(f):
            continue
        seen.add(f)
        res.append(f)
    return res


def tables_vectors(prop, tier, vec_path, corpus_limit=None):
    """vectors for the table checks: grammar universe (LL and LR), scanner catalogue, repository corpus"""
    from p_bnf import universe, with_
    import p_scan
    tot = {"generated": 0, "distinct": 0, "wall": 0.0}
    spaces = []
    n = 0
    with open(vec_path, "w") as f:
        part = vec_path + ".g"
        g = tlc_gen("Gen_G", with_(universe(tier), Filter="wf"), ["Emit"], 16, part, spec="ESpec", run_prefix=f"{prop}_{tier}_g")
        k = 0
        for i, l in enumerate(open(part)):
            v = json.loads(l)
            # every grammar as LL; every 3rd also as LALR(1) (quick), all (thorough)
            for lr in (False, True):
                if lr and tier == "quick" and i % 3:
                    continue
                f.write(json.dumps({"g": v["g"], "lr": lr, "id": f"g{i}{'lr' if lr else 'll'}"}) + "\n")
                k += 1
        os.remove(part)
        for kk in ("generated", "distinct", "wall"):
            tot[kk] += g[kk]
        spaces.append({"space": "Gen_G well-formed grammars", "vectors": k, "states": g["distinct"]})
        n += k
        k = 0
        for cid in ("basic", "plus1", "plus2", "look", "modes", "stack", "skipsw", "cmt", "cmt0", "xml", "pas", "dash", "lc2", "bc2", "nonl", "nows", "allow", "allow2", "allowst", "allowst2", "utf"):
            part = vec_path + ".s"
            g = tlc_gen("Scanner", {"CfgId": cid, "MaxText": 0}, ["Emit"], 1, part, spec="Spec", run_prefix=f"{prop}_{tier}_s{cid}", no_shard_consts=True)
            for l in open(part):
                v = json.loads(l)
                if "def" in v:
                    for lr in (False, True):
                        f.write(json.dumps({"cfgdef": v["def"], "lr": lr, "id": f"scan-{cid}-{'lr' if lr else 'll'}"}) + "\n")
                        k += 1
            os.remove(part)
            tot["distinct"] += g["distinct"]
            tot["generated"] += g["generated"]
        spaces.append({"space": "Scanner.tla catalogue", "vectors": k})
        n += k
        files = corpus_pars()
        if corpus_limit:
            files = files[:corpus_limit]
        for fn in files:
            try:
                txt = open(fn).read()
            except Exception:
                continue
            f.write(json.dumps({"par": txt, "id": fn}) + "\n")
        spaces.append({"space": "repository .par files", "vectors": len(files)})
        n += len(files)
    return tot, spaces, n


def tables_check(prop, tier, replay, rule, tv_module="Tables", kind="tables", extra_vectors=()):
    t0 = time.time()
    rep = Reporter(prop, tier)
    vec_path = os.path.join(OUT, f"{prop}_{tier}.vec.ndjson")
    if replay:
        case = json.load(open(replay))["case"]
        with open(vec_path, "w") as f:
            f.write(json.dumps(case["vec"]) + "\n")
        tot, spaces = {"generated": 0, "distinct": 0, "wall": 0.0}, []
    else:
        tot, spaces, n = tables_vectors(prop, tier, vec_path)
        if extra_vectors:
            with open(vec_path, "a") as f:
                for v in extra_vectors:
                    f.write(json.dumps(v) + "\n")
            spaces.append({"space": "hand-written catalogue", "vectors": len(extra_vectors)})
    outp = os.path.join(OUT, f"{prop}_{tier}.replay.ndjson")
    pv(["replay", kind, vec_path, outp])
    res = read_ndjson(outp)
    summary = res[-1]["summary"]
    for r in res[:-1]:
        if "tool_error" in r:
            raise ToolError(r["tool_error"])
        m = r["mismatch"]
        rep.violation({"vec": r["vec"], "what": m["what"]},
                      f"{m['what']}: expected {json.dumps(m['expected'])[:200]} got {json.dumps(m['actual'])[:300]} on {json.dumps(r['vec'])[:300]}")
    if summary["trace_events"] == 0:
        raise ToolError("no tables events recorded (vacuous)")

    def describe(first, ev, run_ev):
        return {"vec": ev.get("vec") or {"id": ev.get("case")}, "why": ev.get("why")}, f"tables disagree: {json.dumps(ev)[:600]}"
    tvres = tv.validate(prop, tv_module, outp + ".trace", rep, describe, nchunks=16, boundary=kind, run_prefix=f"{prop}_{tier}_tv")
    samples = []
    for i, l in enumerate(open(outp + ".trace")):
        if i in (0, 40):
            e = json.loads(l)
            e.pop("vec", None)
            e.pop("exp", None)
            e.pop("ana", None)
            samples.append(e)
    rc = rep.finish()
    cov = {"states": max(tot["distinct"] + tvres["states"], 1), "transitions": max(tot["generated"] + tvres["states"], 1),
           "traces_validated_against_impl": tvres["cases_accepted"], "samples": samples,
           "evaluations": summary["evaluations"], "distinct_nontrivial": summary["tags"].get("accepted", 0),
           "rule": rule, "tags": summary["tags"], "spaces": spaces,
           "tv": {k: tvres[k] for k in ("events", "cases", "cases_accepted", "states")},
           "exhaustive": False, "known_findings_seen": rep.known, "tlc_wall_s": round(tot["wall"] + tvres["wall"], 1)}
    write_evidence(prop, tier, "model_checking", cov, time.time() - t0, len(rep.violations),
                   ["the three views are produced by the projections in harness/src/checks/tables.rs (source tables via syn, export model via serde, analysis via the public API)"])
    return rc


NAMING_CATALOGUE = [
    # terminals that map to the same base name
    'S: "\\+" \'+\' /\\+/ "a" "A" "a1" \'a1\';',
    'S: "a" ?= "b" "a" ?! "b" "a" \'a\';',
    'S: "," \',\' ";" ":" "::" "->" "=>" "==" "=";',
    'S: "if" "type" "Self" "self" "fn" "r#" "_" "__";',
    'S: /[a-z]+/ /[0-9]+/ /[a-z]+[0-9]/ "\\(" "\\)";',
    # non-terminals with numeric suffixes, keyword-like names, names of generated helpers
    'S: S0 S1 S2; S0: "a"; S1: "b"; S2: "c";',
    'S: Type Fn Self_ Box Vec Option; Type: "a"; Fn: "b"; Self_: "c"; Box: "d"; Vec: "e"; Option: "f";',
    'S: { A } [ B ] ( C | D ); A: "a"; B: "b"; C: "c"; D: "d";',
    'S: SList SOpt SGroup; SList: { "a" }; SOpt: [ "b" ]; SGroup: ( "c" | "d" );',
    'S: { { "a" } "b" } [ [ "c" ] "d" ];',
    # member names via @name colliding with generated ones and with each other's defaults
    'S: "a"@b "b"@a A@s A; A: "c";',
    'S: A@a A A@a0; A: "a";',
    'S: "a"@r#type "b"@r#fn "c"@self_;',
    'S: A A A; A: "a" "a" "a";',
    'S: Ab AB aB; Ab: "a"; AB: "b"; aB: "c";',
    'S: A_B AB A__B; A_B: "a"; AB: "b"; A__B: "c";',
    'S: Token Tokens ASTType; Token: "a"; Tokens: "b"; ASTType: "c";',
    'S: "a"^ "b"^ A^ A; A: "c";',
]


RUST_KEYWORDS = ["as", "break", "const", "continue", "crate", "else", "enum", "extern", "false", "fn", "for", "if", "impl", "in", "let",
                 "loop", "match", "mod", "move", "mut", "pub", "ref", "return", "self", "static", "struct", "super", "trait", "true",
                 "type", "unsafe", "use", "where", "while", "async", "await", "dyn", "abstract", "become", "box", "do", "final", "macro",
                 "override", "priv", "typeof", "unsized", "virtual", "yield", "try", "gen"]


def keyword_grammars():
    """every Rust keyword as a non-terminal name (capitalised and as it is) and as a terminal text / member name"""
    out = []
    for i in range(0, len(RUST_KEYWORDS), 9):
        kws = RUST_KEYWORDS[i:i + 9]
        caps = [k.capitalize() for k in kws]
        out.append("S: " + " ".join(caps) + "; " + " ".join(f'{c}: "{k}{j}";' for j, (c, k) in enumerate(zip(caps, kws))))
        out.append("S: " + " ".join(kws) + "; " + " ".join(f'{k}: "{k}{j}x";' for j, k in enumerate(kws)))
        out.append("S: " + " ".join(f'"{k}"' for k in kws) + ";")
        out.append("S: " + " ".join(f'"{k}{j}y"@{k}' for j, k in enumerate(kws)) + ";")
    return out


def naming_vectors():
    out = []
    for i, body in enumerate(keyword_grammars()):
        for ty in ("", "%grammar_type 'LALR(1)'\n"):
            out.append({"par": f'%start S\n%title "t"\n%comment "c"\n{ty}%%\n{body}\n', "id": "keyword%d%s" % (i, "lr" if ty else "ll")})
    for i, body in enumerate(NAMING_CATALOGUE):
        for ty in ("", "%grammar_type 'LALR(1)'\n"):
            out.append({"par": f'%start S\n%title "t"\n%comment "c"\n{ty}%%\n{body}\n', "id": "naming%d%s" % (i, "lr" if ty else "ll")})
    return out


def c33(prop, tier, replay):
    return tables_check(prop, tier, replay,
                        "a catalogue of grammars built to provoke name clashes (terminals with the same base name in different quoting styles, "
                        "with lookahead, punctuation and keyword texts; non-terminals with numeric suffixes, keyword-like names and the names of "
                        "generated helpers; @member names colliding with generated ones), each as LL(k) and LALR(1), plus the grammar universe, "
                        "the scanner catalogue and every .par file of the repository: per accepted grammar a `names` event lists TERMINAL_NAMES, "
                        "NON_TERMINALS and - read with syn from the generated user-trait source - type names, per type its field/variant names and "
                        "per trait its method names; Names.tla requires every name to be a valid Rust identifier (keywords only as raw identifiers) "
                        "and the sets that must be distinct to be distinct. non-trivial = grammar accepted",
                        tv_module="Names", kind="names", extra_vectors=naming_vectors())


def c18(prop, tier, replay):
    consts = {"Texts": {"a", "b", "esc", "dot"}, "Kinds": {"legacy", "regex", "raw"}, "Las": {"none", "pos", "neg"},
              "MaxOcc": 2 if tier == "quick" else 3}
    gens = [{"module": "Gen_Term", "constants": consts, "invariants": ["Emit", "Dense"], "no_shard_consts": True}]
    if tier == "quick":
        gens.append({"module": "Gen_Term", "constants": dict(consts, MaxOcc=4), "invariants": ["Emit"], "no_shard_consts": True,
                     "simulate": 120, "nshards": 8, "depth": 8})
    return simple_check(
        prop, tier, replay, gens, "c18",
        "every list of up to 2 (3) terminal occurrences drawn from texts {a, b, \\., .} x quoting {\"..\", /../, '..'} x lookahead {none, ?= 'a', ?! 'a'} "
        "(plus random lists of 4), with the token number Gen_Term.tla assigns to each occurrence (same text, alike kinds, same lookahead = "
        "same terminal; numbered from 5 in first-occurrence order); the list becomes the production S: o1 o2 ..; for both parser types and "
        "the harness compares: length of TERMINAL_NAMES, the production table of the generated source and of the export model, the scanner "
        "entry (pattern, lookahead) carrying that number in the generated source and in the export model, and - when patterns are distinct - "
        "that the sentence parses with the real run-time. (Lookahead automata / LR tables and skip / transition lists are tied to the same "
        "numbers by C21's agreement checks.) non-trivial: >= 2 distinct terminals",
        nontrivial_tags=["several_terminals"], exhaustive=(tier != "quick"))


PAR_FLAGS = {"lr", "ut", "ntt", "tt", "cm", "auto", "um", "modes", "um2", "skip", "clipn", "memn", "utn", "clipt", "memt", "utt", "la", "lac", "lam", "lau"}


def c25(prop, tier, replay):
    gens = [{"module": "Gen_Flags", "constants": {"Flags": PAR_FLAGS, "MinOn": 0, "MaxOn": 3 if tier == "quick" else 5},
             "invariants": ["Emit"], "no_shard_consts": True},
            {"module": "Gen_Flags", "constants": {"Flags": PAR_FLAGS, "MinOn": len(PAR_FLAGS) - 2, "MaxOn": len(PAR_FLAGS)},
             "invariants": ["Emit"], "no_shard_consts": True}]
    extra = [{"par": open(f).read(), "id": f} for f in corpus_pars()]
    if not replay:
        extra += [{"par": v["par"], "id": v["id"]} for v in decl_vectors(prop, tier)[0]]
    return simple_check(
        prop, tier, replay, gens, "c25",
        f"feature combinations of the PAR model ({len(PAR_FLAGS)} features: grammar type, %user_type/%nt_type/%t_type, comments, auto newline/ws "
        "off, %allow_unmatched per state, a second scanner state with %on/%enter and %skip, clipped / member-named / user-typed terminals and "
        "non-terminals, positive and negative lookahead): every subset of up to 3 (5) features and every subset missing at most 2, enumerated "
        "by Gen_Flags.tla, plus every .par file of the repository and the accepted texts of Gen_Decl.tla (scanner directives x definition "
        "shapes); the grammar is read, rendered with render_par_string and read back - before "
        "and after check_and_transform_grammar; ParModel.tla compares the two models field by field (start, type, title, comment, type "
        "declarations, scanner configurations, productions with all symbol attributes). non-trivial: grammar accepted",
        tv_module="ParModel", boundary="roundtrip", nontrivial_tags=["accepted"], extra_vectors=extra, exhaustive=False,
        describe=lambda first, ev, run_ev: ({"vec": ev.get("vec"), "why": ev.get("why"), "stage": ev.get("stage")}, json.dumps(ev)[:500]))


DECL_SHAPES = {"empty": "X: ;", "t": "X: 'x';", "tt": "X: 'x' 'y';", "nt": "X: Y; Y: 'x';", "alt": "X: 'x' | 'y';", "altempty": "X: 'x' | ;",
               "emptyalt": "X: | 'x';", "opt": "X: [ 'x' ];", "rep": "X: { 'x' };", "grp": "X: ( 'x' );", "undefined": "", "regex": "X: /x+/;",
               "la": "X: 'x' ?= 'y';", "states": "X: <M>'x';", "clipped": "X: 'x'^;", "member": "X: 'x'@m;", "twice": "X: 'x'; X: 'y';"}
DECL_DIRECTIVES = {"skip": "%skip X", "skip2": "%skip X, X", "enter": "%on X %enter M", "push": "%on X %push M", "pop": "%on X %pop",
                   "enterself": "%on X %enter INITIAL", "on2": "%on X, Z %enter M", "nttype": "%nt_type X = my::T"}


def decl_text(v):
    """PAR text of a Gen_Decl.tla vector"""
    d = DECL_DIRECTIVES[v["directive"]]
    top = d if v["place"] == "top" else ""
    inner = d if v["place"] == "state" else ""
    ty = "%grammar_type 'LALR(1)'\n" if v["type"] == "lr" else ""
    body = ("S: 'a' X Z;" if v["used"] else "S: 'a' Z;") + " Z: <INITIAL, M>'z'; " + DECL_SHAPES[v["shape"]]
    return f'%start S\n%title "t"\n%comment "c"\n{ty}{top}\n%scanner M {{\n{inner}\n}}\n%%\n{body}\n'


def decl_vectors(prop, tier):
    part = os.path.join(OUT, f"{prop}_{tier}.decl.ndjson")
    g = tlc_gen("Gen_Decl", {"Shapes": set(DECL_SHAPES), "Directives": set(DECL_DIRECTIVES), "Places": {"top", "state"}, "Types": {"ll", "lr"}},
                ["Emit"], 1, part, spec="Spec", run_prefix=f"{prop}_{tier}_decl", no_shard_consts=True)
    out = []
    for i, l in enumerate(open(part)):
        v = json.loads(l)
        out.append({"par": decl_text(v), "id": "decl-" + "-".join(str(v[k]) for k in ("shape", "directive", "place", "used", "type")), "mutations": 0})
    os.remove(part)
    return out, g


def c26(prop, tier, replay):
    from p_bnf import universe, with_, R_WIDE
    import random
    rnd = random.Random(pvlib.seed())
    files = corpus_pars()
    nmut = 3 if tier == "quick" else 40
    extra = [{"par": open(f).read(), "id": f, "seed": pvlib.seed() * 7919 + i, "mutations": nmut} for i, f in enumerate(files)]
    for i in range(200 if tier == "quick" else 5000):
        n = rnd.randint(0, 40)
        extra.append({"bytes": [rnd.choice([rnd.randint(0, 255), ord(rnd.choice("%:;|'\"/(){}[]<>^@ SabA\n"))]) for _ in range(n)], "id": f"bytes{i}"})
    if not replay:
        dv, _ = decl_vectors(prop, tier)
        extra += dv
    gens = [{"module": "Gen_G", "constants": with_(universe(tier), Filter="all"), "invariants": ["Emit"], "spec": "ESpec", "nshards": 16, "cap": 150000},
            {"module": "Gen_G", "constants": with_(R_WIDE, Filter="all"), "invariants": ["Emit"], "spec": "ESpec", "nshards": 16,
             "simulate": 40 if tier == "quick" else 1500, "depth": 12}] + ebnf_gens(tier, False)
    return simple_check(
        prop, tier, replay, gens, "c26",
        "the whole pipeline (read, check/transform, lookahead analysis or LALR(1) table, lexer + parser + user-trait generation) under "
        "catch_unwind on: every grammar of the exhaustive universe unfiltered (non-productive, unreachable, left-recursive, cyclic, "
        "conflicting, start-recursive) as LL(k) and LALR(1) with lookahead limits 1, 3, 10; the EBNF universes; every .par file of the "
        f"repository as it is and with {nmut} seeded mutations each (deleted / duplicated / swapped / truncated spans, inserted PAR "
        "punctuation and directives); every combination of a scanner directive naming a non-terminal (%skip, %on .. %enter/%push/%pop, "
        "%nt_type; top level or inside %scanner) with every shape of that non-terminal's definition (Gen_Decl.tla: empty, one/two terminals, "
        "non-terminal, alternatives, empty alternative, optional, repetition, group, undefined, regex, lookahead, scanner states, clipped, "
        "member, two productions), used or unused, LL and LALR; random byte strings. A panic (reported with its source location) is a violation; Err is fine. "
        "non-trivial: the text got past the front end",
        level="exploration", extra_vectors=extra, exhaustive=False,
        nontrivial_tags=["accepted", "rejected_check", "rejected_analysis"],
        assumptions=["a stage that produces no result within 30 s is counted, not reported: the property is about panics"])


def c19(prop, tier, replay):
    from p_bnf import universe, with_, R_WIDE
    gens = [{"module": "Gen_G", "constants": with_(universe(tier), Filter="wf"), "invariants": ["Emit"], "spec": "ESpec", "nshards": 16, "cap": 40000},
            {"module": "Gen_G", "constants": with_(R_WIDE, Filter="wf"), "invariants": ["Emit"], "spec": "ESpec", "nshards": 16,
             "simulate": 40 if tier == "quick" else 1500, "depth": 12}]
    n = 12 if tier == "quick" else 24
    return simple_check(
        prop, tier, replay, gens, "c19",
        f"every well-formed grammar of the universe is built as LL(k) and as LALR(1) parser (when parol accepts it); each parser runs on {n} "
        "seeded random inputs - token soups of up to 40 pieces over the grammar's terminals, a foreign token, comments (also unterminated), "
        "newlines, a multi-byte character, and random code-point strings - with recovery enabled and disabled, each run in its own thread with "
        "a 10 s deadline under catch_unwind; LR runs carry a depth limit of 20000 and every run a limit of 5000 semantic actions (a table with resolved conflicts can reduce a unit production for ever without growing its stack) so that a runaway table ends as a reported non-termination. "
        "Violations: panic, no result, runaway, more than 100 error entries or two entries at one location. The bounded-work discipline of "
        "recovery on all short inputs is also checked step by step by LLParser.tla in C01/C02. non-trivial: parser built",
        level="exploration", pv_env={"PV_C19_INPUTS": n}, exhaustive=False, nontrivial_tags=["LL_accepted", "LR_accepted"])


def c21(prop, tier, replay):
    return tables_check(prop, tier, replay,
                        "for every accepted grammar of three sources - the TLC-enumerated well-formed grammar universe as LL(k) and as LALR(1), the "
                        "scanner configurations of Scanner.tla's catalogue (multiple states, lookahead, skip lists, comments) for both parser "
                        "types, and every .par file of the repository (examples, test data, parol's own grammars) - one `tables` event carries "
                        "three views of the parser: tables read back from the generated source, the export model, the analysis results; "
                        "Tables.tla requires field-wise equality (names, start, productions, automata, LR actions/gotos, scanner tokens per "
                        "state, transitions, skip lists, MAX_K) and every index in range (terminal/non-terminal/production/state indices, "
                        "predicted productions belong to their non-terminal). non-trivial = grammar accepted")


REGISTRY = {"C31": c31, "C32": c32, "C09": c09, "C21": c21, "C33": c33, "C18": c18, "C25": c25, "C26": c26, "C19": c19}
