"""C13-C16: generated scanner + token stream against Scanner.tla."""
import os, json, time
from concurrent.futures import ThreadPoolExecutor
import pvlib
from pvlib import Reporter, write_evidence, tlc_gen, pv, read_ndjson, log, OUT, ToolError


def scan_check(prop, tier, replay, cfgs, fields, rule, assumptions=(), parse=False, pre=None, tstream=()):
    """pre: (rc, coverage) of a preceding sub-check whose coverage is merged into this evidence"""
    """cfgs: list of (cfg id, max text length)"""
    t0 = time.time()
    rep = Reporter(prop, tier)
    vec_path = os.path.join(OUT, f"{prop}_{tier}.vec.ndjson")
    defs_path = os.path.join(OUT, f"{prop}_{tier}.scancfgs.json")
    tot = {"generated": 0, "distinct": 0, "wall": 0.0}
    space_cov = []
    defs = {}
    if replay:
        case = json.load(open(replay))["case"]
        defs = case["defs"]
        with open(vec_path, "w") as f:
            f.write(json.dumps(case["vec"]) + "\n")
    else:
        def one(c):
            cid, n = c
            part = vec_path + "." + cid
            g = tlc_gen("Scanner", {"CfgId": cid, "MaxText": n}, ["Emit", "Lossless", "NoSilentGap"], 1, part,
                        spec="Spec", run_prefix=f"{prop}_{tier}_{cid}", no_shard_consts=True)
            return cid, n, part, g
        with ThreadPoolExecutor(max_workers=8) as ex:
            results = list(ex.map(one, cfgs))
        with open(vec_path, "w") as fall:
            for cid, n, part, g in results:
                if g["violated"]:
                    raise ToolError(f"Scanner.tla invariant {g['violated']} violated for configuration {cid}:\n" + g["out"][-2000:])
                nv = 0
                for l in open(part):
                    v = json.loads(l)
                    if "def" in v:
                        defs[cid] = v.pop("def")
                        l = json.dumps(v) + "\n"
                    fall.write(l)
                    nv += 1
                os.remove(part)
                for k in ("generated", "distinct", "wall"):
                    tot[k] += g[k]
                space_cov.append({"cfg": cid, "max_text": n, "states": g["distinct"], "vectors": nv})
    json.dump(defs, open(defs_path, "w"))
    outp = os.path.join(OUT, f"{prop}_{tier}.replay.ndjson")
    pv(["replay", "scan", vec_path, outp], env={"PV_SCANCFGS": defs_path, "PV_SCAN_FIELDS": fields, "PV_SCAN_PARSE": "1" if parse else "0"})
    res = read_ndjson(outp)
    summary = res[-1]["summary"]
    for r in res[:-1]:
        if "tool_error" in r:
            raise ToolError(r["tool_error"])
        m = r["mismatch"]
        what = m["what"].split("/")[0]
        exp_tok = m["expected"].get("token") if isinstance(m["expected"], dict) else None
        rep.violation({"vec": r["vec"], "what": what, "defs": {r["vec"]["cfg"]: defs.get(r["vec"]["cfg"])},
                       "cfg": r["vec"]["cfg"], "text": r["vec"]["text"],
                       "expected_token": exp_tok, "actual_token": m["actual"] if isinstance(m["actual"], dict) else None},
                      f"{m['what']}: cfg {r['vec']['cfg']} text {json.dumps(r['vec']['text'])}: expected {json.dumps(m['expected'])[:300]} got {json.dumps(m['actual'])[:300]}")
    # TokenStream.tla leg: every operation sequence (lookahead(n) incl. n = K, take_skip_tokens, consume) of length MaxOps on
    # every text, for K = 1..3: the invariants are model-checked and each sequence is replayed on the real TokenStream
    ts_cov = None
    if (tstream and not replay) or (replay and "ops" in json.load(open(replay))["case"].get("vec", {})):
        ts_vec = os.path.join(OUT, f"{prop}_{tier}.ts.vec.ndjson")
        ts_tot = {"generated": 0, "distinct": 0, "vectors": 0}
        if replay:
            with open(ts_vec, "w") as f:
                f.write(json.dumps(json.load(open(replay))["case"]["vec"]) + "\n")
        else:
            def one_ts(a):
                cid, n, k, nops = a
                part = ts_vec + f".{cid}.{k}"
                g = tlc_gen("TokenStream", {"CfgId": cid, "MaxText": n, "K": k, "MaxOps": nops},
                            ["EmitTS", "HandedOutIsPrefix", "LookaheadIsRemainder", "BufferIsWindow"], 1, part,
                            spec="SpecTS", run_prefix=f"{prop}_{tier}_ts_{cid}_{k}", no_shard_consts=True)
                return part, g
            jobs = [(cid, n, k, nops) for (cid, n, nops) in tstream for k in (1, 2, 3)]
            with ThreadPoolExecutor(max_workers=8) as ex, open(ts_vec, "w") as fall:
                for part, g in ex.map(one_ts, jobs):
                    if g["violated"]:
                        raise ToolError(f"TokenStream.tla invariant {g['violated']} violated:\n" + g["out"][-2000:])
                    for l in open(part):
                        fall.write(l)
                        ts_tot["vectors"] += 1
                    os.remove(part)
                    ts_tot["generated"] += g["generated"]
                    ts_tot["distinct"] += g["distinct"]
        ts_out = os.path.join(OUT, f"{prop}_{tier}.ts.replay.ndjson")
        pv(["replay", "tstream", ts_vec, ts_out], env={"PV_SCANCFGS": defs_path})
        tres = read_ndjson(ts_out)
        for r in tres[:-1]:
            m = r["mismatch"]
            rep.violation({"vec": r["vec"], "what": m["what"].split("/")[-1], "defs": {r["vec"]["cfg"]: defs.get(r["vec"]["cfg"])}, "cfg": r["vec"]["cfg"],
                           "text": r["vec"]["text"], "k": r["vec"]["k"]},
                          f"TokenStream {m['what']}: cfg {r['vec']['cfg']} text {json.dumps(r['vec']['text'])} k={r['vec']['k']}: expected "
                          f"{json.dumps(m['expected'].get('result'))[:200]} got {json.dumps(m['actual'])[:200]} after ops "
                          f"{json.dumps([(o['op'], o['n']) for o in r['vec']['ops']])}")
        tsum = tres[-1]["summary"]
        ts_cov = {"states": ts_tot["distinct"], "sequences_replayed": tsum["vectors"], "operations": tsum["evaluations"], "tags": tsum["tags"],
                  "configs": [list(x) for x in tstream]}
    samples = []
    with open(vec_path) as f:
        for i, l in enumerate(f):
            if i in (7, summary["vectors"] // 2, summary["vectors"] - 1):
                samples.append(json.loads(l))
    rc = rep.finish()
    if pre:
        rc = max(rc, pre[0])
    cov = {"states": max(tot["distinct"], 1), "transitions": max(tot["generated"], 1),
           "traces_validated_against_impl": summary["vectors"], "samples": samples,
           "evaluations": summary["evaluations"], "distinct_nontrivial": summary["tags"].get("two_or_more_tokens", 0),
           "rule": rule, "tags": summary["tags"], "spaces": space_cov, "exhaustive": True,
           "known_findings_seen": rep.known, "tlc_wall_s": round(tot["wall"], 1)}
    if ts_cov:
        cov["token_stream_leg"] = ts_cov
        cov["states"] += ts_cov["states"]
        cov["traces_validated_against_impl"] += ts_cov["sequences_replayed"]
    nviol = len(rep.violations)
    if pre:
        pc = pre[1]
        cov["parser_trace_leg"] = {k: pc[k] for k in ("tv", "tags", "spaces", "focus", "evaluations") if k in pc}
        cov["states"] += pc["states"]
        cov["transitions"] += pc["transitions"]
        cov["traces_validated_against_impl"] += pc["traces_validated_against_impl"]
        cov["evaluations"] += pc["evaluations"]
        cov["exhaustive"] = False
        nviol += pre[2]
    write_evidence(prop, tier, "model_checking", cov, time.time() - t0, nviol, assumptions)
    return rc


BASE = ("Scanner.tla is an executable definition of the documented tokenisation rules; for each configuration of its catalogue TLC "
        "enumerates every text over the configuration's alphabet up to the length bound and emits the expected token sequence "
        "(lossless/no-silent-gap invariants model-checked). The harness renders the configuration as a PAR grammar, builds the real "
        "scanner through parol's pipeline (generated source -> scnr2_generate) and reads the text through the real TokenStream")


def c13(prop, tier, replay):
    n = 4 if tier == "quick" else 6
    cfgs = [(c, n) for c in ("basic", "plus1", "plus2", "look", "modes", "stack", "skipsw")] + [("cmt", n if tier == "quick" else 5)]
    nt = 2 if tier == "quick" else 3
    tstream = [("basic", nt, 4), ("cmt", nt, 4), ("skipsw", nt, 4), ("stack", nt, 4)]
    return scan_check(prop, tier, replay, cfgs, "tok", tstream=tstream, rule=
                      BASE + " with lookahead sizes k=1,2,3 and three consumption schedules (lazy, look ahead k before each consume, rotating): "
                      "all nine token sequences (type, byte offsets, skipped?) must equal the expected one. Configurations: shared-prefix literals, "
                      "a+/literal ties in both declaration orders, positive and negative lookahead, two states with enter, push/pop with pop on the "
                      "empty stack and a state-specific skip token, comments. TokenStream.tla leg: the look-ahead buffer as a state machine "
                      "(construction, lookahead(n) incl. n = K, take_skip_tokens, consume with refills); TLC checks HandedOutIsPrefix, "
                      "LookaheadIsRemainder and BufferIsWindow over every operation sequence of length 4 on every text of <= 2 (3) pieces for K = 1..3, "
                      "and every sequence is replayed on the real TokenStream, result by result. non-trivial: texts with >= 2 tokens",
                      assumptions=["regular expressions are restricted to the fragment Scanner.tla interprets (literals, character-class+, the automatic tokens)"])


def c14(prop, tier, replay):
    n = 4 if tier == "quick" else 6
    cfgs = [("utf", n), ("allow", n), ("cmt", n), ("nows", n)]
    return scan_check(prop, tier, replay, cfgs, "pos",
                      BASE + "; C14 compares for every token (significant, skipped, comment, unmatched gap) the text slice, byte offsets and "
                      "start/end line and column with the positions Scanner.tla computes from the text (1-based; a line feed ends a line; "
                      "columns count characters; multi-byte characters, CR, CRLF). Tree half: the same texts are parsed by the generated LL and "
                      "LR parsers (grammar S: { T1 | T2 | .. }); on success the leaves of the tree, left to right, must be exactly the expected "
                      "tokens (the parser trace specifications check contiguity on all other recorded runs). non-trivial: >= 2 tokens", parse=True)


def c15(prop, tier, replay):
    n = 6 if tier == "quick" else 8
    cfgs = [("cmt", 5 if tier == "quick" else 7), ("cmt0", 5 if tier == "quick" else 7), ("xml", n), ("pas", n), ("dash", n), ("lc2", 5 if tier == "quick" else 7), ("bc2", 5 if tier == "quick" else 7)]
    return scan_check(prop, tier, replay, cfgs, "tok",
                      BASE + "; C15: block comments /* */, <!-- -->, (* *), --- -- (self-overlapping end delimiters) and line comments // and --; "
                      "the expected comment token ends at the FIRST occurrence of the end delimiter behind the start delimiter (string search, "
                      "independent of the regular expression parol builds); line comments include their line break. non-trivial: >= 2 tokens",
                      ["line ends are LF (and CRLF via the automatic newline token); a lone CR is not treated as the end of a line comment's line"])


def c16(prop, tier, replay):
    n = 4 if tier == "quick" else 6
    cfgs = [("nonl", n), ("nows", n), ("allow", n), ("allow2", n), ("basic", n), ("allowst", n + 1), ("allowst2", n + 1)]
    return scan_check(prop, tier, replay, cfgs, "tok",
                      BASE + "; C16: states with and without %allow_unmatched, with automatic newline/whitespace handling switched off: without "
                      "allow-unmatched every character no rule matches must come out as the (non-skippable) error token - also a line break "
                      "when %auto_newline_off is set; with it the text is an ignored gap token that stays in the stream. The generated LL and LR parsers "
                      "run on every text: the parse fails exactly when the expected stream contains an error token, and on success the gap "
                      "tokens are leaves of the tree. non-trivial: >= 2 tokens", parse=True)


def c17(prop, tier, replay):
    import p_ll
    pre = None
    if not replay or "defs" not in json.load(open(replay))["case"]:
        pre = p_ll.ll_check(prop, tier, replay, False, 3, 6 if tier == "quick" else 16, p_ll.RULE,
                            "TV: texts that differ only in skipped tokens (blanks, newlines, line and block comments) must give the verdict "
                            "and action sequence of the plain text; comments delivered once, in order, each skipped token a leaf", write=False)
        if replay:
            return pre[0]
    n = 4 if tier == "quick" else 6
    cfgs = [("stack", n), ("skipsw", n), ("cmt", n)]
    return scan_check(prop, tier, replay, cfgs, "tok",
                      BASE + "; C17: (a) scanner states with %skip lists (a token skipped in one state only; a skipped token that itself switches "
                      "the state) and comments: expected skip flags from Scanner.tla, the LL and LR parsers must succeed exactly when no error "
                      "token is expected, deliver every comment once in order and keep every skipped token as a leaf; (b) parser trace leg: "
                      "LLParser.tla validates runs on texts decorated with blanks/newlines/comments against the run on the plain text (same verdict "
                      "and actions). non-trivial: >= 2 tokens", parse=True, pre=pre)


REGISTRY = {"C13": c13, "C14": c14, "C15": c15, "C16": c16, "C17": c17}
