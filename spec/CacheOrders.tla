----------------------------- MODULE CacheOrders -----------------------------
(* The per-k cache discipline of FirstCache / FollowCache as a state machine: requests arrive in *)
(* any order; a request for k first (recursively) fills k-1.  `filled` is what the code's slots  *)
(* hold.  The machine emits every request order of bounded length; the harness replays them on   *)
(* one cache pair and compares every answer with the definition.                                 *)
EXTENDS Naturals, Sequences, TLC, Json
CONSTANTS MaxK, MaxReq
VARIABLES firstFilled, followFilled, reqs, done
vars == <<firstFilled, followFilled, reqs, done>>

Init == firstFilled = {} /\ followFilled = {} /\ reqs = <<>> /\ done = FALSE
ReqFirst(k) == /\ ~done /\ Len(reqs) < MaxReq
               /\ firstFilled' = firstFilled \cup 0..k          \* get(k) fills k-1, k-2, .. first
               /\ reqs' = Append(reqs, <<"first", k>>)
               /\ UNCHANGED <<followFilled, done>>
ReqFollow(k) == /\ ~done /\ Len(reqs) < MaxReq
                /\ followFilled' = followFilled \cup 0..k
                /\ firstFilled' = firstFilled \cup 0..k         \* follow_k(k) needs FIRST_k
                /\ reqs' = Append(reqs, <<"follow", k>>)
                /\ UNCHANGED done
Fin == ~done /\ reqs # <<>> /\ done' = TRUE /\ UNCHANGED <<firstFilled, followFilled, reqs>>
Next == (\E k \in 0..MaxK : ReqFirst(k) \/ ReqFollow(k)) \/ Fin
Spec == Init /\ [][Next]_vars

\* slots are filled downward-closed: slot k is never computed without its seed k-1
DownwardClosed == /\ \A k \in firstFilled : \A j \in 0..k : j \in firstFilled
                  /\ \A k \in followFilled : \A j \in 0..k : j \in followFilled /\ j \in firstFilled
Emit == done => PrintT(<<"VEC", ToJson(reqs)>>)
=============================================================================
