------------------------------- MODULE LsDiag -------------------------------
(***************************************************************************)
(* C29: diagnostics of the parol language server for ONE document.         *)
(*                                                                         *)
(* The client sends MaxEdits open/change notifications (versions 1, 2, ..) *)
(* The server's main loop handles them one after the other; handling an    *)
(* edit has two sections: `handle` (store the text, parse it, check and    *)
(* transform it, spawn the background analysis thread) and `ok` (publish   *)
(* the synchronous result: the parse/check error or an empty list).  A     *)
(* background thread has the sections `run` (LL(k) / LALR(1) analysis) and *)
(* - only if it has something to report - `pub` (publish it).  All         *)
(* publishes go into one channel to the client.                            *)
(*                                                                         *)
(* Text classes:  ok  valid, nothing to report                             *)
(*                pe  syntax error        (synchronous, no thread)         *)
(*                ce  check error         (synchronous, no thread)         *)
(*                ae  LL(k) conflict      (reported by the thread)         *)
(*                lr  resolved LR conflict (warning reported by the thread) *)
(*                                                                         *)
(* AsCoded = TRUE : server.rs as it is (thread publishes unconditionally,  *)
(*                  and may do so before the `ok` of its own version).     *)
(* AsCoded = FALSE: the required behaviour: a thread publishes only while  *)
(*                  its version is the current one and only after the      *)
(*                  synchronous result of its version has been sent.       *)
(***************************************************************************)
EXTENDS Naturals, Sequences, FiniteSets, SequencesExt, TLC, Json
CONSTANTS Texts, MaxEdits, AsCoded

SyncErr(t) == t \in {"pe", "ce"}
BgPub(t)   == t \in {"ae", "lr"}
SyncDiag(t) == IF SyncErr(t) THEN t ELSE "none"
Diag(t)     == IF t = "ok" THEN "none" ELSE t          \* the diagnostics of a text on its own

VARIABLES sent,       \* texts of the edits the client has sent (version = index)
          handled,    \* number of edits whose `handle` section is done
          doc,        \* [ver, txt] stored by the server (ver 0 = none)
          pendingOk,  \* version whose synchronous result is not sent yet (0 = none)
          okSent,     \* set of versions whose synchronous result has been sent
          threads,    \* set of [ver, txt, phase]; phase \in {"run", "pub"}
          published,  \* sequence of <<ver, diag>> as the client receives them
          hist        \* the server sections executed so far (schedule), an observation variable
vars == <<sent, handled, doc, pendingOk, okSent, threads, published, hist>>
view == <<sent, handled, doc, pendingOk, okSent, threads, published>>

Init == /\ sent = <<>> /\ handled = 0 /\ doc = [ver |-> 0, txt |-> "ok"] /\ pendingOk = 0 /\ okSent = {}
        /\ threads = {} /\ published = <<>> /\ hist = <<>>

ClientEdit(t) == /\ Len(sent) < MaxEdits
                 /\ sent' = Append(sent, t)
                 /\ UNCHANGED <<handled, doc, pendingOk, okSent, threads, published, hist>>

\* section `handle`: only when the previous edit's `ok` section is over (one main loop)
Handle == /\ pendingOk = 0 /\ handled < Len(sent)
          /\ LET v == handled + 1  t == sent[handled + 1] IN
             /\ handled' = v /\ doc' = [ver |-> v, txt |-> t] /\ pendingOk' = v
             /\ threads' = IF SyncErr(t) THEN threads ELSE threads \cup {[ver |-> v, txt |-> t, phase |-> "run"]}
             /\ hist' = Append(hist, <<"handle", v>>)
          /\ UNCHANGED <<sent, okSent, published>>
\* section `ok`
SendSync == /\ pendingOk # 0
            /\ published' = Append(published, <<pendingOk, SyncDiag(sent[pendingOk])>>)
            /\ okSent' = okSent \cup {pendingOk}
            /\ hist' = Append(hist, <<"ok", pendingOk>>)
            /\ pendingOk' = 0
            /\ UNCHANGED <<sent, handled, doc, threads>>
\* section `run`
ThreadRun(th) == /\ th \in threads /\ th.phase = "run"
                 /\ threads' = IF BgPub(th.txt) THEN (threads \ {th}) \cup {[th EXCEPT !.phase = "pub"]} ELSE threads \ {th}
                 /\ hist' = Append(hist, <<"run", th.ver>>)
                 /\ UNCHANGED <<sent, handled, doc, pendingOk, okSent, published>>
\* section `pub`
ThreadPub(th) == /\ th \in threads /\ th.phase = "pub"
                 /\ (~AsCoded => th.ver \in okSent \/ th.ver # doc.ver)   \* required: not before its own synchronous result
                 /\ threads' = threads \ {th}
                 /\ published' = IF AsCoded \/ th.ver = doc.ver THEN Append(published, <<th.ver, th.txt>>) ELSE published
                 /\ hist' = Append(hist, <<"pub", th.ver>>)
                 /\ UNCHANGED <<sent, handled, doc, pendingOk, okSent>>

Next == \/ \E t \in Texts : ClientEdit(t)
        \/ Handle \/ SendSync
        \/ \E th \in threads : ThreadRun(th) \/ ThreadPub(th)
Spec == Init /\ [][Next]_vars

Quiescent == Len(sent) = MaxEdits /\ handled = MaxEdits /\ pendingOk = 0 /\ threads = {}

\* C29
FinalDiagnosticsCurrent ==
  Quiescent => /\ published # <<>>
               /\ published[Len(published)] = <<doc.ver, Diag(doc.txt)>>
\* weaker facts that hold even as coded
VersionsKnown == \A i \in 1..Len(published) : published[i][1] \in 1..handled
SyncInOrder == \A i, j \in 1..Len(published) :
                 (i < j /\ published[i][2] \in {"none", "pe", "ce"} /\ published[j][2] \in {"none", "pe", "ce"})
                   => published[i][1] < published[j][1]

\* one vector per quiescent state: the texts and the schedule that led there
Emit == Quiescent => PrintT(<<"VEC", ToJson([texts |-> sent, schedule |-> hist, published |-> published,
                                             current |-> published # <<>> /\ published[Len(published)] = <<doc.ver, Diag(doc.txt)>>])>>)

\* ---- replaying a schedule (used by the trace specification): deterministic
RECURSIVE Replay(_, _, _)
\* st = [handled, doc, okSent, threads (set of [ver, txt]), published]
Replay(texts, sched, st) ==
  IF sched = <<>> THEN st
  ELSE LET k == sched[1][1]  v == sched[1][2]  t == texts[v] IN
       Replay(texts, Tail(sched),
         CASE k = "handle" -> [st EXCEPT !.handled = v, !.doc = [ver |-> v, txt |-> t]]
           [] k = "ok"     -> [st EXCEPT !.published = Append(@, <<v, SyncDiag(t)>>)]
           [] k = "run"    -> st
           [] k = "pub"    -> [st EXCEPT !.published = Append(@, <<v, t>>)]
           [] OTHER        -> st)
AsCodedPublishes(texts, sched) ==
  Replay(texts, sched, [handled |-> 0, doc |-> [ver |-> 0, txt |-> "ok"], published |-> <<>>]).published
=============================================================================
