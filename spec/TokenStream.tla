----------------------------- MODULE TokenStream -----------------------------
(***************************************************************************)
(* The look-ahead buffer between scanner and parser                         *)
(* (parol_runtime::lexer::TokenStream + TokenBuffer), C13 / C17.            *)
(*                                                                         *)
(* Source = the token sequence Scanner.tla defines for the text, followed   *)
(* by end-of-input tokens for ever.  The stream keeps a buffer `buf` of     *)
(* tokens read so far and not yet handed out; `rd` counts the tokens read.  *)
(*   construction   reads until K significant (non-skipped) tokens are in   *)
(*                  the buffer                                              *)
(*   lookahead(n)   n >= K: error; otherwise refill to K significant tokens *)
(*                  and return the n-th significant token                   *)
(*   take_skips     removes and returns the skipped tokens at the FRONT of  *)
(*                  the buffer (no refill)                                  *)
(*   consume        refill; error if the front token is a skipped one (the  *)
(*                  parser must take them first); otherwise remove and      *)
(*                  return the front token, refill                          *)
(* The machine first builds a text (Scanner.tla's generator), then performs *)
(* up to MaxOps operations in every order.                                  *)
(***************************************************************************)
EXTENDS Scanner
CONSTANTS K, MaxOps
VARIABLES buf, rd, hist, tk      \* tk caches the source token sequence once the stream exists
tsvars == <<buf, rd, hist, tk>>

Eoi == [ty |-> 0, s |-> Len(text), e |-> Len(text), skip |-> FALSE]
Strip(ts) == [i \in 1..Len(ts) |-> [ty |-> ts[i].ty, s |-> ts[i].s, e |-> ts[i].e, skip |-> ts[i].skip]]
TK == IF rd = 0 THEN Strip(Toks) ELSE tk
SrcOf(TS, i) == IF i <= Len(TS) THEN TS[i] ELSE Eoi
Src(i) == SrcOf(tk, i)
IsSig(t) == ~t.skip
Sig(b) == SelectSeq(b, IsSig)

RECURSIVE Read(_, _, _, _)
Read(TS, b, r, n) == IF n = 0 THEN <<b, r>>
                    ELSE LET t == SrcOf(TS, r + 1) IN Read(TS, Append(b, t), r + 1, IF t.skip THEN n ELSE n - 1)
Ensure(TS, b, r) == LET l == Len(Sig(b)) IN IF l < K THEN Read(TS, b, r, K - l) ELSE <<b, r>>
\* the constructor fills the buffer; rd = 0 stands for "not constructed yet"
Cur(TS) == IF rd = 0 THEN Read(TS, <<>>, 0, K) ELSE <<buf, rd>>

RECURSIVE LeadSkips(_)
LeadSkips(b) == IF b = <<>> \/ ~b[1].skip THEN <<>> ELSE <<b[1]>> \o LeadSkips(Tail(b))

Record(op, n, res) == hist' = Append(hist, [op |-> op, n |-> n, res |-> res])

La(TS, c, n) == \E st \in {Ensure(TS, c[1], c[2])} :
         IF n >= K THEN /\ buf' = c[1] /\ rd' = c[2] /\ Record("la", n, <<>>)          \* error, nothing read
         ELSE /\ buf' = st[1] /\ rd' = st[2] /\ Record("la", n, <<Sig(st[1])[n + 1]>>)
Take(TS, c) == \E lead \in {LeadSkips(c[1])} :
        /\ buf' = SubSeq(c[1], Len(lead) + 1, Len(c[1])) /\ rd' = c[2] /\ Record("take", 0, lead)
Consume(TS, c) == \E st \in {Ensure(TS, c[1], c[2])} :
           IF st[1][1].skip THEN /\ buf' = st[1] /\ rd' = st[2] /\ Record("consume", 0, <<>>)      \* error
           ELSE \E st2 \in {Ensure(TS, Tail(st[1]), st[2])} : /\ buf' = st2[1] /\ rd' = st2[2] /\ Record("consume", 0, <<st[1][1]>>)

Op == /\ done /\ Len(hist) < MaxOps
      /\ \E TS \in {TK} : \E c \in {Cur(TS)} :
            /\ tk' = TS
            /\ (Take(TS, c) \/ Consume(TS, c) \/ \E n \in 0..K : La(TS, c, n))
      /\ UNCHANGED vars
InitTS == Init /\ buf = <<>> /\ rd = 0 /\ hist = <<>> /\ tk = <<>>
NextTS == (Next /\ UNCHANGED tsvars) \/ Op
SpecTS == InitTS /\ [][NextTS]_<<vars, tsvars>>

\* ---- properties
RECURSIVE Flat(_)
Flat(h) == IF h = <<>> THEN <<>> ELSE (IF h[1].op = "la" THEN <<>> ELSE h[1].res) \o Flat(Tail(h))
HandedOut == Flat(hist)
\* what the parser has received so far is a prefix of the source: nothing lost, duplicated or reordered
HandedOutIsPrefix == \A i \in 1..Len(HandedOut) : HandedOut[i] = Src(i)
\* a lookahead answer depends only on what has been handed out, not on K, earlier lookaheads or refills
RECURSIVE NthSig(_, _)
NthSig(i, n) == IF Src(i).skip THEN NthSig(i + 1, n) ELSE IF n = 0 THEN Src(i) ELSE NthSig(i + 1, n - 1)
LookaheadIsRemainder ==
  hist # <<>> =>
    LET h == hist[Len(hist)] IN
    (h.op = "la" /\ h.res # <<>>) => h.res[1] = NthSig(Len(Flat(SubSeq(hist, 1, Len(hist) - 1))) + 1, h.n)
\* the buffer holds exactly the tokens read and not handed out
BufferIsWindow == rd > 0 => /\ Len(HandedOut) + Len(buf) = rd
                            /\ \A i \in 1..Len(buf) : buf[i] = Src(Len(HandedOut) + i)
                            /\ Len(Sig(buf)) <= K

EmitTS == (done /\ Len(hist) = MaxOps) =>
            PrintT(<<"VEC", ToJson([cfg |-> CfgId, text |-> text, k |-> K, ops |-> hist])>>)
=============================================================================
