-------------------------------- MODULE Names --------------------------------
(***************************************************************************)
(* C33: identifiers parol generates.  A `names` event lists, for one        *)
(* accepted grammar, the entries of TERMINAL_NAMES and NON_TERMINALS, the   *)
(* type names, per type its member (field / variant) names, and the trait   *)
(* method names of the generated code.  Each name comes with its characters *)
(* (TLC cannot look into strings).                                          *)
(***************************************************************************)
EXTENDS Naturals, Sequences, FiniteSets, SequencesExt, TLC, Json, IOUtils
Rec == ndJsonDeserialize(IOEnv.TRACE)
VARIABLE l
E == Rec[l]

Lower == {"a","b","c","d","e","f","g","h","i","j","k","l","m","n","o","p","q","r","s","t","u","v","w","x","y","z"}
Upper == {"A","B","C","D","E","F","G","H","I","J","K","L","M","N","O","P","Q","R","S","T","U","V","W","X","Y","Z"}
Digit == {"0","1","2","3","4","5","6","7","8","9"}
Keywords == {"as","break","const","continue","crate","else","enum","extern","false","fn","for","if","impl","in","let",
             "loop","match","mod","move","mut","pub","ref","return","self","Self","static","struct","super","trait",
             "true","type","unsafe","use","where","while","async","await","dyn","abstract","become","box","do","final",
             "macro","override","priv","typeof","unsized","virtual","yield","try","gen"}
\* n = [s |-> "name", c |-> <<chars>>, raw |-> BOOLEAN]   (raw: written as r#name)
IsIdent(n) == /\ n.c # <<>>
              /\ n.c[1] \in Lower \cup Upper \cup {"_"}
              /\ \A i \in 1..Len(n.c) : n.c[i] \in Lower \cup Upper \cup Digit \cup {"_"}
              /\ n.c # <<"_">>
              /\ (n.s \in Keywords => n.raw)
              /\ (n.raw => n.s \notin {"self", "Self", "super", "crate"})
AllIdent(ns) == \A i \in 1..Len(ns) : IsIdent(ns[i])
\* NON_TERMINALS holds the user's own identifiers verbatim as strings (a grammar may name a non-terminal
\* `type` or `Self`); only their shape is required here - every identifier DERIVED from them (type, member,
\* method names) must satisfy the keyword rule of IsIdent
IsIdentShape(n) == /\ n.c # <<>>
                   /\ n.c[1] \in Lower \cup Upper \cup {"_"}
                   /\ \A i \in 1..Len(n.c) : n.c[i] \in Lower \cup Upper \cup Digit \cup {"_"}
AllIdentShape(ns) == \A i \in 1..Len(ns) : IsIdentShape(ns[i])
Distinct(ns) == \A i, j \in 1..Len(ns) : i # j => ns[i].s # ns[j].s

Check ==
  /\ l <= Len(Rec) /\ E.ev = "names" /\ l' = l + 1
  /\ LET bad == [terminals_invalid |-> ~AllIdent(E.terminals), terminals_dup |-> ~Distinct(E.terminals),
                 nts_invalid |-> ~AllIdentShape(E.nonterminals), nts_dup |-> ~Distinct(E.nonterminals),
                 types_invalid |-> ~AllIdent(E.types), types_dup |-> ~Distinct(E.types),
                 methods_invalid |-> ~AllIdent(E.methods),
                 members_invalid |-> \E t \in 1..Len(E.members) : ~AllIdent(E.members[t].m),
                 members_dup |-> \E t \in 1..Len(E.members) : ~Distinct(E.members[t].m)]
     IN IF \A f \in DOMAIN bad : ~bad[f] THEN TRUE
        ELSE PrintT(<<"REJECT", l, ToJson([why |-> {f \in DOMAIN bad : bad[f]}, case |-> E.id, vec |-> E.vec])>>)
Init == l = 1
TraceSpec == Init /\ [][Check]_l
TraceAccepted ==
  LET d == TLCGet("stats").diameter - 1 IN
  IF d = Len(Rec) THEN TRUE
  ELSE PrintT(<<"UNMATCHED", d + 1, ToJson(Rec[d + 1])>>) /\ FALSE
=============================================================================
