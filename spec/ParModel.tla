------------------------------ MODULE ParModel ------------------------------
(***************************************************************************)
(* C25 (and the comparison half of C27/C28): two grammar descriptions are   *)
(* the same iff their abstract content is the same: start symbol, grammar   *)
(* type, title/comment, type declarations, scanner configurations and the   *)
(* productions with every symbol attribute.  The harness projects parol's   *)
(* GrammarConfig to a record of strings (one per production / scanner /     *)
(* declaration, in order); `roundtrip` events carry the model before (a)    *)
(* and after (b) rendering + re-reading.                                    *)
(***************************************************************************)
EXTENDS Naturals, Sequences, FiniteSets, TLC, Json, IOUtils
Rec == ndJsonDeserialize(IOEnv.TRACE)
VARIABLE l
E == Rec[l]
Fields == {"start", "type", "title", "comment", "user_types", "nt_types", "t_type", "scanners", "prods"}
Diff(a, b) == {f \in Fields : a[f] # b[f]}
Check == /\ l <= Len(Rec) /\ E.ev = "roundtrip" /\ l' = l + 1
         /\ IF Diff(E.a, E.b) = {} THEN TRUE
            ELSE PrintT(<<"REJECT", l, ToJson([why |-> Diff(E.a, E.b), stage |-> E.stage, vec |-> E.vec])>>)
Init == l = 1
TraceSpec == Init /\ [][Check]_l
TraceAccepted ==
  LET d == TLCGet("stats").diameter - 1 IN
  IF d = Len(Rec) THEN TRUE
  ELSE PrintT(<<"UNMATCHED", d + 1, ToJson(Rec[d + 1])>>) /\ FALSE
=============================================================================
