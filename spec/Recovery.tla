------------------------------ MODULE Recovery ------------------------------
(***************************************************************************)
(* C31: edit scripts of the error recovery (Recovery::levenshtein_distance  *)
(* as consumed by LLKParser::adjust_token_stream).                         *)
(*  - Dist: the minimal edit distance (insert / delete / replace), by the   *)
(*    textbook row-wise dynamic programme.                                  *)
(*  - Apply: the consumption rule of adjust_token_stream: Keep and Replace  *)
(*    consume one scanned and one expected token, Insert consumes an        *)
(*    expected one, Delete a scanned one.                                   *)
(* The module is both the pair generator (GEN: variables act, exp) and the  *)
(* trace specification for recorded scripts (TV: events `lev`).             *)
(***************************************************************************)
EXTENDS Naturals, Sequences, FiniteSets, SequencesExt, FiniteSetsExt, TLC, Json, IOUtils

Min2(a, b) == IF a < b THEN a ELSE b
RECURSIVE RowFrom(_, _, _, _, _)
\* builds row i (as a sequence indexed 1..n+1 for columns 0..n) from the previous row
RowFrom(prev, ai, b, j, acc) ==
  IF j > Len(b) THEN acc
  ELSE LET sub == prev[j] + (IF ai = b[j] THEN 0 ELSE 1)      \* prev[j] is column j-1
           del == prev[j + 1] + 1
           ins == acc[Len(acc)] + 1
       IN RowFrom(prev, ai, b, j + 1, Append(acc, Min2(sub, Min2(del, ins))))
RECURSIVE Rows(_, _, _, _)
Rows(a, b, i, prev) == IF i > Len(a) THEN prev
                       ELSE Rows(a, b, i + 1, RowFrom(prev, a[i], b, 1, <<prev[1] + 1>>))
Dist(a, b) == LET last == Rows(a, b, 1, [j \in 1..(Len(b) + 1) |-> j - 1]) IN last[Len(b) + 1]

RECURSIVE ApplyOps(_, _, _, _, _, _)
\* returns <<ok, result>>; ok = FALSE when an operation has nothing to consume or Keep joins unequal tokens
ApplyOps(ops, a, b, i, j, res) ==
  IF ops = <<>> THEN <<i = Len(a) /\ j = Len(b), res>>
  ELSE LET o == Head(ops) IN
       IF o = "Keep" THEN IF i < Len(a) /\ j < Len(b) /\ a[i + 1] = b[j + 1]
                          THEN ApplyOps(Tail(ops), a, b, i + 1, j + 1, Append(res, a[i + 1])) ELSE <<FALSE, res>>
       ELSE IF o = "Replace" THEN IF i < Len(a) /\ j < Len(b)
                          THEN ApplyOps(Tail(ops), a, b, i + 1, j + 1, Append(res, b[j + 1])) ELSE <<FALSE, res>>
       ELSE IF o = "Insert" THEN IF j < Len(b)
                          THEN ApplyOps(Tail(ops), a, b, i, j + 1, Append(res, b[j + 1])) ELSE <<FALSE, res>>
       ELSE IF o = "Delete" THEN IF i < Len(a)
                          THEN ApplyOps(Tail(ops), a, b, i + 1, j, res) ELSE <<FALSE, res>>
       ELSE <<FALSE, res>>
NonKeep(ops) == Cardinality({i \in 1..Len(ops) : ops[i] # "Keep"})

ScriptOk(a, b, d, ops) ==
  LET r == ApplyOps(ops, a, b, 0, 0, <<>>) IN
  /\ r[1] /\ r[2] = b          \* the script turns the scanned sequence into the expected one
  /\ NonKeep(ops) = d          \* its non-keep length is the distance it reports
  /\ d = Dist(a, b)            \* which is minimal

\* ---------------- GEN: all pairs over Syms with lengths <= MaxLen
CONSTANTS Syms, MaxLen
VARIABLES act, exp, stage     \* stage: "act" | "exp" | "done"
gvars == <<act, exp, stage>>
GInit == act = <<>> /\ exp = <<>> /\ stage = "act"
GNext == \/ stage = "act" /\ Len(act) < MaxLen /\ \E s \in Syms : act' = Append(act, s) /\ UNCHANGED <<exp, stage>>
         \/ stage = "act" /\ stage' = "exp" /\ UNCHANGED <<act, exp>>
         \/ stage = "exp" /\ Len(exp) < MaxLen /\ \E s \in Syms : exp' = Append(exp, s) /\ UNCHANGED <<act, stage>>
         \/ stage = "exp" /\ stage' = "done" /\ UNCHANGED <<act, exp>>
GSpec == GInit /\ [][GNext]_gvars
Emit == stage = "done" => PrintT(<<"VEC", ToJson([act |-> act, exp |-> exp, dist |-> Dist(act, exp)])>>)
\* MC sanity of the definition: metric properties
DistLaws == stage = "done" => /\ Dist(act, exp) = Dist(exp, act)
                              /\ (Dist(act, exp) = 0) = (act = exp)
                              /\ Dist(act, exp) <= Max({Len(act), Len(exp)})
                              /\ Dist(act, exp) >= (IF Len(act) > Len(exp) THEN Len(act) - Len(exp) ELSE Len(exp) - Len(act))
=============================================================================
