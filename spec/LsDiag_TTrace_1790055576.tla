---- MODULE LsDiag_TTrace_1790055576 ----
EXTENDS Sequences, TLCExt, Toolbox, LsDiag, Naturals, TLC

_expression ==
    LET LsDiag_TEExpression == INSTANCE LsDiag_TEExpression
    IN LsDiag_TEExpression!expression
----

_trace ==
    LET LsDiag_TETrace == INSTANCE LsDiag_TETrace
    IN LsDiag_TETrace!trace
----

_inv ==
    ~(
        TLCGet("level") = Len(_TETrace)
        /\
        okSent = ({1, 2})
        /\
        hist = (<<<<"handle", 1>>, <<"ok", 1>>, <<"handle", 2>>, <<"run", 2>>, <<"pub", 2>>, <<"ok", 2>>>>)
        /\
        handled = (2)
        /\
        pendingOk = (0)
        /\
        doc = ([ver |-> 2, txt |-> "ae"])
        /\
        threads = ({})
        /\
        published = (<<<<1, "pe">>, <<2, "ae">>, <<2, "none">>>>)
        /\
        sent = (<<"pe", "ae">>)
    )
----

_init ==
    /\ handled = _TETrace[1].handled
    /\ doc = _TETrace[1].doc
    /\ okSent = _TETrace[1].okSent
    /\ hist = _TETrace[1].hist
    /\ sent = _TETrace[1].sent
    /\ pendingOk = _TETrace[1].pendingOk
    /\ published = _TETrace[1].published
    /\ threads = _TETrace[1].threads
----

_next ==
    /\ \E i,j \in DOMAIN _TETrace:
        /\ \/ /\ j = i + 1
              /\ i = TLCGet("level")
        /\ handled  = _TETrace[i].handled
        /\ handled' = _TETrace[j].handled
        /\ doc  = _TETrace[i].doc
        /\ doc' = _TETrace[j].doc
        /\ okSent  = _TETrace[i].okSent
        /\ okSent' = _TETrace[j].okSent
        /\ hist  = _TETrace[i].hist
        /\ hist' = _TETrace[j].hist
        /\ sent  = _TETrace[i].sent
        /\ sent' = _TETrace[j].sent
        /\ pendingOk  = _TETrace[i].pendingOk
        /\ pendingOk' = _TETrace[j].pendingOk
        /\ published  = _TETrace[i].published
        /\ published' = _TETrace[j].published
        /\ threads  = _TETrace[i].threads
        /\ threads' = _TETrace[j].threads

\* Uncomment the ASSUME below to write the states of the error trace
\* to the given file in Json format. Note that you can pass any tuple
\* to `JsonSerialize`. For example, a sub-sequence of _TETrace.
    \* ASSUME
    \*     LET J == INSTANCE Json
    \*         IN J!JsonSerialize("LsDiag_TTrace_1790055576.json", _TETrace)

=============================================================================

 Note that you can extract this module `LsDiag_TEExpression`
  to a dedicated file to reuse `expression` (the module in the 
  dedicated `LsDiag_TEExpression.tla` file takes precedence 
  over the module `LsDiag_TEExpression` below).

---- MODULE LsDiag_TEExpression ----
EXTENDS Sequences, TLCExt, Toolbox, LsDiag, Naturals, TLC

expression == 
    [
        \* To hide variables of the `LsDiag` spec from the error trace,
        \* remove the variables below.  The trace will be written in the order
        \* of the fields of this record.
        handled |-> handled
        ,doc |-> doc
        ,okSent |-> okSent
        ,hist |-> hist
        ,sent |-> sent
        ,pendingOk |-> pendingOk
        ,published |-> published
        ,threads |-> threads
        
        \* Put additional constant-, state-, and action-level expressions here:
        \* ,_stateNumber |-> _TEPosition
        \* ,_handledUnchanged |-> handled = handled'
        
        \* Format the `handled` variable as Json value.
        \* ,_handledJson |->
        \*     LET J == INSTANCE Json
        \*     IN J!ToJson(handled)
        
        \* Lastly, you may build expressions over arbitrary sets of states by
        \* leveraging the _TETrace operator.  For example, this is how to
        \* count the number of times a spec variable changed up to the current
        \* state in the trace.
        \* ,_handledModCount |->
        \*     LET F[s \in DOMAIN _TETrace] ==
        \*         IF s = 1 THEN 0
        \*         ELSE IF _TETrace[s].handled # _TETrace[s-1].handled
        \*             THEN 1 + F[s-1] ELSE F[s-1]
        \*     IN F[_TEPosition - 1]
    ]

=============================================================================



Parsing and semantic processing can take forever if the trace below is long.
 In this case, it is advised to uncomment the module below to deserialize the
 trace from a generated binary file.

\*
\*---- MODULE LsDiag_TETrace ----
\*EXTENDS IOUtils, LsDiag, TLC
\*
\*trace == IODeserialize("LsDiag_TTrace_1790055576.bin", TRUE)
\*
\*=============================================================================
\*

---- MODULE LsDiag_TETrace ----
EXTENDS LsDiag, TLC

trace == 
    <<
    ([okSent |-> {},hist |-> <<>>,handled |-> 0,pendingOk |-> 0,doc |-> [ver |-> 0, txt |-> "ok"],threads |-> {},published |-> <<>>,sent |-> <<>>]),
    ([okSent |-> {},hist |-> <<>>,handled |-> 0,pendingOk |-> 0,doc |-> [ver |-> 0, txt |-> "ok"],threads |-> {},published |-> <<>>,sent |-> <<"pe">>]),
    ([okSent |-> {},hist |-> <<>>,handled |-> 0,pendingOk |-> 0,doc |-> [ver |-> 0, txt |-> "ok"],threads |-> {},published |-> <<>>,sent |-> <<"pe", "ae">>]),
    ([okSent |-> {},hist |-> <<<<"handle", 1>>>>,handled |-> 1,pendingOk |-> 1,doc |-> [ver |-> 1, txt |-> "pe"],threads |-> {},published |-> <<>>,sent |-> <<"pe", "ae">>]),
    ([okSent |-> {1},hist |-> <<<<"handle", 1>>, <<"ok", 1>>>>,handled |-> 1,pendingOk |-> 0,doc |-> [ver |-> 1, txt |-> "pe"],threads |-> {},published |-> <<<<1, "pe">>>>,sent |-> <<"pe", "ae">>]),
    ([okSent |-> {1},hist |-> <<<<"handle", 1>>, <<"ok", 1>>, <<"handle", 2>>>>,handled |-> 2,pendingOk |-> 2,doc |-> [ver |-> 2, txt |-> "ae"],threads |-> {[ver |-> 2, txt |-> "ae", phase |-> "run"]},published |-> <<<<1, "pe">>>>,sent |-> <<"pe", "ae">>]),
    ([okSent |-> {1},hist |-> <<<<"handle", 1>>, <<"ok", 1>>, <<"handle", 2>>, <<"run", 2>>>>,handled |-> 2,pendingOk |-> 2,doc |-> [ver |-> 2, txt |-> "ae"],threads |-> {[ver |-> 2, txt |-> "ae", phase |-> "pub"]},published |-> <<<<1, "pe">>>>,sent |-> <<"pe", "ae">>]),
    ([okSent |-> {1},hist |-> <<<<"handle", 1>>, <<"ok", 1>>, <<"handle", 2>>, <<"run", 2>>, <<"pub", 2>>>>,handled |-> 2,pendingOk |-> 2,doc |-> [ver |-> 2, txt |-> "ae"],threads |-> {},published |-> <<<<1, "pe">>, <<2, "ae">>>>,sent |-> <<"pe", "ae">>]),
    ([okSent |-> {1, 2},hist |-> <<<<"handle", 1>>, <<"ok", 1>>, <<"handle", 2>>, <<"run", 2>>, <<"pub", 2>>, <<"ok", 2>>>>,handled |-> 2,pendingOk |-> 0,doc |-> [ver |-> 2, txt |-> "ae"],threads |-> {},published |-> <<<<1, "pe">>, <<2, "ae">>, <<2, "none">>>>,sent |-> <<"pe", "ae">>])
    >>
----


=============================================================================

---- CONFIG LsDiag_TTrace_1790055576 ----
CONSTANTS
    Texts = { "ok" , "pe" , "ae" }
    MaxEdits = 2
    AsCoded = TRUE

INVARIANT
    _inv

CHECK_DEADLOCK
    \* CHECK_DEADLOCK off because of PROPERTY or INVARIANT above.
    FALSE

INIT
    _init

NEXT
    _next

CONSTANT
    _TETrace <- _trace

ALIAS
    _expression
=============================================================================
\* Generated on Tue Sep 22 05:39:37 UTC 2026