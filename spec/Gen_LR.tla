------------------------------- MODULE Gen_LR -------------------------------
(* C03 / C04: bounded language and the LALR(1) classification of every well-formed grammar.       *)
EXTENDS GrammarEnum, LR1
CONSTANT LangN

Interesting == WellFormed(G)
Vec == [g |-> GJson(G), n |-> LangN, lang |-> Lang(G, LangN), lalr |-> IsLALR1(G), lr1 |-> IsLR1(G)]
Emit == (done /\ Interesting) => PrintT(<<"VEC", ToJson(Vec)>>)
\* MC: merging by core can only add conflicts; an LL(1)-style unambiguity sanity: a grammar that is
\* LALR(1) is LR(1)
MergeOnlyAdds == (done /\ Interesting) => (IsLALR1(G) => IsLR1(G))
=============================================================================
