------------------------------ MODULE Gen_Flags ------------------------------
(* Feature-combination generator: every subset of the feature set Flags whose size is within   *)
(* MinOn..MaxOn (the PAR model features: clipping, member names, user types, scanner states,    *)
(* lookahead, declarations, grammar type ...).  Feature interaction constraints are stated here. *)
EXTENDS Naturals, FiniteSets, Sequences, SequencesExt, TLC, Json
CONSTANTS Flags, MinOn, MaxOn
VARIABLES rest, on, done
vars == <<rest, on, done>>
FS == SetToSeq(Flags)
Init == rest = 1 /\ on = {} /\ done = FALSE
Next == \/ ~done /\ rest <= Len(FS) /\ rest' = rest + 1 /\ (on' = on \cup {FS[rest]} \/ on' = on) /\ UNCHANGED done
        \/ ~done /\ rest > Len(FS) /\ done' = TRUE /\ UNCHANGED <<rest, on>>
Spec == Init /\ [][Next]_vars
\* a scanner-state specific feature needs the second scanner state
Consistent == ("skip" \in on => "modes" \in on) /\ ("um2" \in on => "modes" \in on)
Emit == (done /\ Cardinality(on) >= MinOn /\ Cardinality(on) <= MaxOn /\ Consistent) => PrintT(<<"VEC", ToJson([flags |-> on])>>)
=============================================================================
