SPECIFICATION ESpec
CONSTANTS
  NTs = {"S", "A"}
  Ts = {"a", "b"}
  MaxProds = 3
  MinProds = 1
  Ordered = TRUE
  MaxRhs = 2
  Shard = 0
  NShards = 1
  LangN = 4
INVARIANT Emit DefsAgree
CHECK_DEADLOCK FALSE
