------------------------------- MODULE Gen_Decl -------------------------------
(***************************************************************************)
(* C26 (also C34): scanner directives that name a non-terminal, crossed     *)
(* with every shape the named non-terminal's definition can have.  parol    *)
(* reads `%skip X`, `%on X %enter/%push/%pop` by looking into X's           *)
(* productions (X must be a token alias); every other shape has to be       *)
(* rejected with an error - never with a panic.                             *)
(***************************************************************************)
EXTENDS Naturals, Sequences, TLC, Json
CONSTANTS Shapes, Directives, Places, Types
VARIABLES c, done
vars == <<c, done>>
Space == Shapes \X Directives \X Places \X {TRUE, FALSE} \X Types
Init == c \in Space /\ done = TRUE
Next == UNCHANGED vars
Spec == Init /\ [][Next]_vars
Emit == PrintT(<<"VEC", ToJson([shape |-> c[1], directive |-> c[2], place |-> c[3], used |-> c[4], type |-> c[5]])>>)
=============================================================================
