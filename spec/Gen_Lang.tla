------------------------------ MODULE Gen_Lang ------------------------------
(* C01 / C03 and friends: the bounded language of every well-formed grammar of the universe.   *)
EXTENDS GrammarEnum
CONSTANTS LangN,
          ForLL        \* TRUE: left-recursion-free grammars only (LL pipeline); FALSE: all well-formed

Interesting == IF ForLL THEN WellFormedLL(G) ELSE WellFormed(G)
Vec == [g |-> GJson(G), n |-> LangN, lang |-> Lang(G, LangN)]
Emit == (done /\ Interesting) => PrintT(<<"VEC", ToJson(Vec)>>)

\* MC: the language is closed under the productions (it is a fixpoint), and monotone in the bound
LangIsFixpoint == (done /\ Interesting) =>
    LET La == LangAll(G, LangN) IN
    /\ LangStep(G, La, LangN) = La
    /\ \A A \in G.nts : LangAll(G, LangN - 1)[A] = {w \in La[A] : Len(w) <= LangN - 1}
=============================================================================
