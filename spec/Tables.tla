------------------------------- MODULE Tables -------------------------------
(***************************************************************************)
(* C21 / C18 / C33: what the generated parser source says (`src`: tables    *)
(* read back from the source text), what the language-agnostic export      *)
(* model says (`exp`) and what the analysis computed (`ana`) must be the    *)
(* same parser, with every index inside the table it points into.           *)
(* Each view is a record with (a subset of) the fields                      *)
(*   terminal_names, non_terminals, start, prods, plens, auto, autok, lr,   *)
(*   utoks, atoks, strans, skip, maxk                                       *)
(* in a normal form produced by small projections in the harness.           *)
(* Events `tables` are judged one by one.                                   *)
(***************************************************************************)
EXTENDS Naturals, Sequences, FiniteSets, SequencesExt, TLC, Json, IOUtils
Rec == ndJsonDeserialize(IOEnv.TRACE)
VARIABLE l
E == Rec[l]

Fields == {"terminal_names", "non_terminals", "start", "prods", "plens", "auto", "autok", "lr",
           "utoks", "atoks", "strans", "skip", "maxk"}
Disagree(a, b) == {f \in Fields : f \in DOMAIN a /\ f \in DOMAIN b /\ a[f] # b[f]}

\* ---- index ranges of one view
NT(v) == Len(v.non_terminals)
Has(v, f) == f \in DOMAIN v
TT(v) == IF Has(v, "terminal_names") THEN Len(v.terminal_names) ELSE v.nterm
SymOk(v, s) == IF s[1] = "n" THEN s[2] < NT(v) ELSE (s[2] < TT(v) /\ s[2] >= 5)
InRange(v) ==
  /\ Has(v, "start") => v.start < NT(v)
  /\ Has(v, "prods") => \A i \in 1..Len(v.prods) :
        /\ v.prods[i][1] < NT(v)
        /\ \A j \in 1..Len(v.prods[i][2]) : SymOk(v, v.prods[i][2][j])
  /\ Has(v, "auto") =>
        /\ Len(v.auto) = NT(v)
        /\ \A a \in 1..Len(v.auto) :
             LET A == v.auto[a]
                 states == {0} \cup {A[3][t][1] : t \in 1..Len(A[3])} \cup {A[3][t][3] : t \in 1..Len(A[3])}
             IN /\ A[1] >= -1 /\ A[1] < Len(v.prods)
                /\ \A t \in 1..Len(A[3]) :
                     /\ A[3][t][2] < TT(v)                        \* terminal index
                     /\ A[3][t][4] >= -1 /\ A[3][t][4] < Len(v.prods)
                     \* a predicted production belongs to this non-terminal
                     /\ (A[3][t][4] >= 0 => v.prods[A[3][t][4] + 1][1] = a - 1)
                /\ (A[1] >= 0 => v.prods[A[1] + 1][1] = a - 1)
                /\ (Has(v, "maxk") => A[2] <= v.maxk)
  /\ (Has(v, "maxk") /\ Has(v, "auto") /\ v.auto # <<>>) =>
        \* MAX_K is the largest lookahead of any automaton (at least 1 for the token stream)
        LET ks == {v.auto[a][2] : a \in 1..Len(v.auto)} IN \A k \in ks : k <= v.maxk
  /\ Has(v, "lr") => \A s \in 1..Len(v.lr) :
        /\ \A a \in 1..Len(v.lr[s].a) :
             LET x == v.lr[s].a[a] IN
             /\ x[1] < TT(v)
             /\ CASE x[2][1] = "s" -> x[2][2] < Len(v.lr)
                  [] x[2][1] = "r" -> x[2][2] < NT(v) /\ x[2][3] < Len(v.plens) /\ v.plens[x[2][3] + 1][1] = x[2][2]
                  [] OTHER -> TRUE
        /\ \A g \in 1..Len(v.lr[s].g) : v.lr[s].g[g][1] < NT(v) /\ v.lr[s].g[g][2] < Len(v.lr)
  /\ Has(v, "utoks") => \A m \in 1..Len(v.utoks) : \A t \in 1..Len(v.utoks[m]) :
        v.utoks[m][t][2] >= 5 /\ v.utoks[m][t][2] < TT(v) - 1
  /\ Has(v, "skip") => /\ (Has(v, "utoks") => Len(v.skip) = Len(v.utoks))
                       /\ \A m \in 1..Len(v.skip) : \A t \in 1..Len(v.skip[m]) : v.skip[m][t] >= 5 /\ v.skip[m][t] < TT(v) - 1
  /\ Has(v, "strans") => \A m \in 1..Len(v.strans) : \A t \in 1..Len(v.strans[m]) :
        /\ v.strans[m][t][1] >= 5 /\ v.strans[m][t][1] < TT(v) - 1
        /\ (v.strans[m][t][2] # "pop" => v.strans[m][t][3] < Len(v.strans))

\* ---- C33: identifiers
Letters == {"a","b","c","d","e","f","g","h","i","j","k","l","m","n","o","p","q","r","s","t","u","v","w","x","y","z"}
Distinct(s) == \A i, j \in 1..Len(s) : i # j => s[i] # s[j]

Check ==
  /\ l <= Len(Rec) /\ E.ev = "tables" /\ l' = l + 1
  /\ LET bad == [se |-> Disagree(E.src, E.exp), ea |-> Disagree(E.exp, E.ana), sa |-> Disagree(E.src, E.ana),
                 range_src |-> ~InRange(E.src), range_exp |-> ~InRange(E.exp),
                 names |-> ~(Distinct(E.src.terminal_names) /\ Distinct(E.src.non_terminals))]
     IN IF bad.se = {} /\ bad.ea = {} /\ bad.sa = {} /\ ~bad.range_src /\ ~bad.range_exp /\ ~bad.names THEN TRUE
        ELSE PrintT(<<"REJECT", l, ToJson([why |-> bad, case |-> E.id])>>)
Init == l = 1
TraceSpec == Init /\ [][Check]_l
TraceAccepted ==
  LET d == TLCGet("stats").diameter - 1 IN
  IF d = Len(Rec) THEN TRUE
  ELSE PrintT(<<"UNMATCHED", d + 1, ToJson(Rec[d + 1])>>) /\ FALSE
=============================================================================
