-------------------------------- MODULE Ebnf --------------------------------
(***************************************************************************)
(* Grammars as the user writes them: right-hand sides are token sequences  *)
(* over symbols and the brackets ( ) [ ] { } and | of PAR's EBNF.          *)
(* LangE is the bounded language of such a grammar, defined directly on    *)
(* the bracket structure (groups, optionals = with or without, repetitions *)
(* = Kleene star, alternatives = union) - the meaning canonicalisation     *)
(* into plain productions has to preserve (C09).                           *)
(***************************************************************************)
EXTENDS Grammar

Open  == {"(", "[", "{"}
Close == {")", "]", "}"}
Match(o) == CASE o = "(" -> ")" [] o = "[" -> "]" [] o = "{" -> "}"
Meta == Open \cup Close \cup {"|"}

\* index of the bracket closing the one opened at position i (toks[i] \in Open)
RECURSIVE CloseOf(_, _, _)
CloseOf(toks, j, depth) ==
  IF toks[j] \in Open THEN CloseOf(toks, j + 1, depth + 1)
  ELSE IF toks[j] \in Close THEN (IF depth = 1 THEN j ELSE CloseOf(toks, j + 1, depth - 1))
  ELSE CloseOf(toks, j + 1, depth)

\* balanced, properly nested
RECURSIVE Balanced(_, _, _)
Balanced(toks, i, stack) ==
  IF i > Len(toks) THEN stack = <<>>
  ELSE IF toks[i] \in Open THEN Balanced(toks, i + 1, Append(stack, toks[i]))
  ELSE IF toks[i] \in Close THEN stack # <<>> /\ Match(stack[Len(stack)]) = toks[i]
                                 /\ Balanced(toks, i + 1, SubSeq(stack, 1, Len(stack) - 1))
  ELSE Balanced(toks, i + 1, stack)

RECURSIVE StarLe(_, _, _)
StarLe(S, X, n) == LET S2 == S \cup CatLe(S, X, n) IN IF S2 = S THEN S ELSE StarLe(S2, X, n)

\* language of toks[i..j] read as alternatives; env gives the languages of the non-terminals
RECURSIVE AltsLang(_, _, _, _, _, _), SeqLang(_, _, _, _, _, _)
\* splits at top-level "|"
AltsLang(toks, i, j, nts, env, n) ==
  LET bars == {b \in i..j : toks[b] = "|" /\
                 Cardinality({x \in i..(b - 1) : toks[x] \in Open}) = Cardinality({x \in i..(b - 1) : toks[x] \in Close})}
  IN IF bars = {} THEN SeqLang(toks, i, j, nts, env, n)
     ELSE LET b == Min(bars) IN SeqLang(toks, i, b - 1, nts, env, n) \cup AltsLang(toks, b + 1, j, nts, env, n)
SeqLang(toks, i, j, nts, env, n) ==
  IF i > j THEN {<<>>}
  ELSE LET t == toks[i] IN
       IF t \in Open
       THEN LET c == CloseOf(toks, i, 0)
                inner == AltsLang(toks, i + 1, c - 1, nts, env, n)
                f == CASE t = "(" -> inner
                       [] t = "[" -> inner \cup {<<>>}
                       [] t = "{" -> StarLe({<<>>}, inner, n)
            IN IF f = {} THEN {} ELSE CatLe(f, SeqLang(toks, c + 1, j, nts, env, n), n)
       ELSE LET f == IF t \in nts THEN env[t] ELSE IF n >= 1 THEN {<<t>>} ELSE {}
            IN IF f = {} THEN {} ELSE CatLe(f, SeqLang(toks, i + 1, j, nts, env, n), n)

\* E : [start, nts, prods |-> << [lhs, rhs (token sequence)] >>]
LangEStep(E, env, n) ==
  [A \in E.nts |-> UNION {AltsLang(E.prods[i].rhs, 1, Len(E.prods[i].rhs), E.nts, env, n)
                           : i \in {j \in 1..Len(E.prods) : E.prods[j].lhs = A}}]
RECURSIVE LangELfp(_, _, _)
LangELfp(E, env, n) == LET e2 == LangEStep(E, env, n) IN IF e2 = env THEN env ELSE LangELfp(E, e2, n)
LangEAll(E, n) == LangELfp(E, [A \in E.nts |-> {}], n)
LangE(E, n) == LangEAll(E, n)[E.start]
=============================================================================
