------------------------------ MODULE Gen_Term ------------------------------
(***************************************************************************)
(* C18: terminal identity.  A terminal occurrence is (text, kind, lookahead)*)
(* Two occurrences are the same terminal iff they have the same text, kinds *)
(* that behave alike (string "..." and regex /.../ are both regular         *)
(* expressions, raw '...' is not) and the same lookahead.  Token numbers    *)
(* are 5 + the position of the terminal in first-occurrence order.          *)
(* The machine enumerates occurrence lists with the expected numbers.       *)
(***************************************************************************)
EXTENDS Naturals, Sequences, FiniteSets, SequencesExt, TLC, Json
CONSTANTS Texts, Kinds, Las, MaxOcc
VARIABLES occ, done
vars == <<occ, done>>
Class(k) == IF k = "raw" THEN "raw" ELSE "rx"
Same(a, b) == a.text = b.text /\ Class(a.kind) = Class(b.kind) /\ a.la = b.la
\* index (1-based) of the first occurrence that is the same terminal as occ[i]
First(o, i) == CHOOSE j \in 1..i : Same(o[j], o[i]) /\ \A m \in 1..(j - 1) : ~Same(o[m], o[i])
IsFirst(o, i) == First(o, i) = i
Rank(o, i) == Cardinality({j \in 1..First(o, i) : IsFirst(o, j)})     \* 1-based rank of its class
TermIndex(o, i) == 4 + Rank(o, i)
NClasses(o) == Cardinality({j \in 1..Len(o) : IsFirst(o, j)})
Init == occ = <<>> /\ done = FALSE
Next == \/ ~done /\ Len(occ) < MaxOcc /\ \E t \in Texts, k \in Kinds, la \in Las :
             occ' = Append(occ, [text |-> t, kind |-> k, la |-> la]) /\ UNCHANGED done
        \/ ~done /\ occ # <<>> /\ done' = TRUE /\ UNCHANGED occ
Spec == Init /\ [][Next]_vars
Emit == done => PrintT(<<"VEC", ToJson([occ |-> occ, idx |-> [i \in 1..Len(occ) |-> TermIndex(occ, i)], nclasses |-> NClasses(occ)])>>)
\* sanity: numbering is dense and monotone in first occurrences
Dense == done => {TermIndex(occ, i) : i \in 1..Len(occ)} = 5..(4 + NClasses(occ))
=============================================================================
