------------------------------ MODULE Gen_Text ------------------------------
(* LsText (C30): the small document texts every language-server request is tried on: all sequences  *)
(* of up to MaxLen pieces over the alphabet (single characters incl. a two-byte and a four-byte one, *)
(* CR, LF, and a few PAR fragments), with the set of positions that must be answered without a      *)
(* crash: every line 0..lines+1 and every UTF-16 column 0..longest line + 2.                          *)
EXTENDS Naturals, Sequences, FiniteSets, SequencesExt, TLC, Json
CONSTANTS Pieces, MaxLen
VARIABLES text, n, done
vars == <<text, n, done>>
Init == text = <<>> /\ n = 0 /\ done = FALSE
Next == \/ ~done /\ n < MaxLen /\ \E p \in Pieces : text' = text \o <<p>> /\ n' = n + 1 /\ UNCHANGED done
        \/ ~done /\ done' = TRUE /\ UNCHANGED <<text, n>>
Spec == Init /\ [][Next]_vars
Lines == 1 + Cardinality({i \in 1..Len(text) : text[i] = "<lf>"})
Emit == done => PrintT(<<"VEC", ToJson([text |-> text, lines |-> Lines])>>)
=============================================================================
