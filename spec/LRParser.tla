------------------------------ MODULE LRParser ------------------------------
(***************************************************************************)
(* parol_runtime::LRParser::parse_into as a trace specification: the       *)
(* shift/reduce CERTIFICATE machine.  The LR parser reports every          *)
(* reduction through the user action (`action` events, children = the      *)
(* non-skip symbols popped), delivers comments (`comment`), and builds the *)
(* tree only at the end (`open`/`tok`/`close` events in depth-first order).*)
(* Shifts are not observable; a reduction whose last j children are tokens *)
(* not yet on the symbol stack implies j shifts of the next input tokens.  *)
(*                                                                         *)
(* Checked: every reduction pops exactly the right-hand side of its        *)
(* production from the symbol stack (so the reductions are a rightmost     *)
(* derivation in reverse), success only with the stack = <<start>> and all *)
(* input consumed (C03), verdict = membership in the bounded language for  *)
(* conflict-free tables and soundness for resolved ones (C04), the final   *)
(* tree is exactly the derivation tree with the skipped tokens as extra    *)
(* leaves, contiguous over the whole text (C14), comments once and in      *)
(* order (C17), option variants agree with the reference run (C20).        *)
(***************************************************************************)
EXTENDS Grammar, TLC, Json, IOUtils

Rec == ndJsonDeserialize(IOEnv.TRACE)

VARIABLES l, G, L, cur,
          sstack,   \* symbol stack; entries [k |-> "t", v, s] or [k |-> "n", v, ch |-> <<subtrees>>]
          pos,      \* significant tokens shifted so far
          lastoff,  \* offset of the last shifted token (-1 none)
          acts, cmts,
          phase,    \* "idle" | "parse" | "tree" | "done" | "trim"
          lin, li,  \* expected depth-first linearisation of the final tree and the index reached
          off, tcm, \* contiguity of the tree's leaves; comment tokens met in the tree
          maxd, ref, base
vars == <<l, G, L, cur, sstack, pos, lastoff, acts, cmts, phase, lin, li, off, tcm, maxd, ref, base>>

IsEvent(e) == l <= Len(Rec) /\ Rec[l].ev = e /\ l' = l + 1
E == Rec[l]
Input == cur.input
Limit == cur.opts.depth

Init == /\ l = 1 /\ G = [start |-> "", nts |-> {}, prods |-> <<>>] /\ L = <<>> /\ cur = <<>>
        /\ sstack = <<>> /\ pos = 0 /\ lastoff = -1 /\ acts = <<>> /\ cmts = <<>> /\ phase = "idle"
        /\ lin = <<>> /\ li = 0 /\ off = 0 /\ tcm = <<>> /\ maxd = 1
        /\ ref = [ok |-> FALSE, acts |-> <<>>, cmts |-> <<>>, maxd |-> 0]
        /\ base = [ok |-> FALSE, acts |-> <<>>]

Grammar ==
  /\ IsEvent("grammar") /\ phase = "idle"
  /\ LET gg == [start |-> E.g.start, nts |-> Range(E.g.nts), prods |-> E.g.prods, n |-> E.n,
                resolved |-> E.resolved]
     IN G' = gg /\ L' = IF E.n >= 0 THEN LangAll(gg, E.n) ELSE <<>>
  /\ UNCHANGED <<cur, sstack, pos, lastoff, acts, cmts, phase, lin, li, off, tcm, maxd, ref, base>>

Run ==
  /\ IsEvent("run") /\ phase = "idle"
  /\ cur' = E /\ sstack' = <<>> /\ pos' = 0 /\ lastoff' = -1 /\ acts' = <<>> /\ cmts' = <<>>
  /\ lin' = <<>> /\ li' = 0 /\ off' = 0 /\ tcm' = <<>> /\ maxd' = 1
  /\ phase' = "parse"
  /\ UNCHANGED <<G, L, ref, base>>

\* a child reported to the action against a symbol-stack entry / against the production's symbol
ArgIsEntry(a, c) == IF c.k = "t" THEN a.k = "t" /\ a.sym = c.v /\ a.s = c.s
                                 ELSE a.k = "n" /\ a.nt = c.v
ArgIsSym(a, s) == IF IsNT(G, s) THEN a.k = "n" /\ a.nt = s ELSE a.k = "t" /\ a.sym = s

\* index of the input token that starts at byte offset s (0 if none)
TokAt(s) == LET I == {i \in 1..Len(cur.offs) : cur.offs[i] = s} IN IF I = {} THEN 0 ELSE CHOOSE i \in I : TRUE
InTok(i) == [k |-> "t", v |-> Input[i], s |-> cur.offs[i]]

Reduce ==
  /\ IsEvent("action") /\ phase = "parse"
  /\ LET p == E.prod + 1
         r == G.prods[p].rhs
         n == E.n
         lastIsTok == n > 0 /\ E.ch[n].k = "t"
         \* when the last child is a token, the tokens up to it have been shifted before this
         \* reduction; otherwise (empty production, or a non-terminal on top) the number of tokens
         \* shifted since the previous reduction is not visible here: every choice is explored and
         \* the wrong ones die at a later reduction or at the final tree
         q == IF lastIsTok THEN TokAt(E.ch[n].s) ELSE 0
         ms == IF lastIsTok THEN {IF q > pos THEN q - pos ELSE 0}
               ELSE IF n = 0 THEN 0..(Len(Input) - pos) ELSE {0}
     IN
     /\ p \in ProdIdx(G) /\ n = Len(r) /\ Len(E.ch) = n
     /\ lastIsTok => q > 0
     /\ \A i \in 1..n : ArgIsSym(E.ch[i], r[i])
     /\ \E m \in ms :
          LET st2 == sstack \o [i \in 1..m |-> InTok(pos + i)] IN
          /\ n <= Len(st2)
          /\ \A i \in 1..n : ArgIsEntry(E.ch[i], st2[Len(st2) - n + i])
          /\ sstack' = Append(SubSeq(st2, 1, Len(st2) - n),
                              [k |-> "n", v |-> G.prods[p].lhs, ch |-> SubSeq(st2, Len(st2) - n + 1, Len(st2))])
          /\ pos' = pos + m
          /\ maxd' = LET top == Len(st2) + 1 IN IF top > maxd THEN top ELSE maxd
     /\ acts' = Append(acts, <<p - 1, n>>)
  /\ UNCHANGED <<G, L, cur, lastoff, cmts, phase, lin, li, off, tcm, ref, base>>

Comment ==
  /\ IsEvent("comment") /\ phase = "parse"
  /\ IF cmts = <<>> THEN TRUE ELSE cmts[Len(cmts)] < E.s
  /\ cmts' = Append(cmts, E.s)
  /\ UNCHANGED <<G, L, cur, sstack, pos, lastoff, acts, phase, lin, li, off, tcm, maxd, ref, base>>

\* ---- the tree, delivered after the last reduction
RECURSIVE Lin(_)
Lin(t) == IF t.k = "t" THEN <<[ev |-> "tok", v |-> t.v, s |-> t.s]>>
          ELSE <<[ev |-> "open", v |-> t.v]>> \o FlattenSeq([i \in 1..Len(t.ch) |-> Lin(t.ch[i])])
               \o <<[ev |-> "close"]>>

TreeStart ==
  /\ IsEvent("open") /\ phase = "parse" /\ E.nt = "" /\ ~cur.opts.trim
  /\ Len(sstack) = 1 /\ sstack[1].k = "n" /\ sstack[1].v = G.start /\ pos = Len(Input)
  /\ lin' = Lin(sstack[1]) /\ li' = 0 /\ phase' = "tree"
  /\ UNCHANGED <<G, L, cur, sstack, pos, lastoff, acts, cmts, off, tcm, maxd, ref, base>>
TreeOpen ==
  /\ IsEvent("open") /\ phase = "tree" /\ li < Len(lin)
  /\ lin[li + 1] = [ev |-> "open", v |-> E.nt] /\ li' = li + 1
  /\ UNCHANGED <<G, L, cur, sstack, pos, lastoff, acts, cmts, phase, lin, off, tcm, maxd, ref, base>>
TreeClose ==
  /\ IsEvent("close") /\ phase = "tree" /\ li < Len(lin)
  /\ lin[li + 1] = [ev |-> "close"] /\ li' = li + 1
  /\ UNCHANGED <<G, L, cur, sstack, pos, lastoff, acts, cmts, phase, lin, off, tcm, maxd, ref, base>>
TreeTok ==
  /\ IsEvent("tok") /\ phase = "tree" /\ ~E.skip /\ li < Len(lin)
  /\ lin[li + 1] = [ev |-> "tok", v |-> E.sym, s |-> E.s] /\ li' = li + 1
  /\ E.s = off /\ E.e >= E.s /\ off' = E.e
  /\ UNCHANGED <<G, L, cur, sstack, pos, lastoff, acts, cmts, phase, lin, tcm, maxd, ref, base>>
TreeSkip ==
  /\ IsEvent("tok") /\ phase = "tree" /\ E.skip
  /\ E.s = off /\ E.e >= E.s /\ off' = E.e
  /\ tcm' = IF E.ty \in {3, 4} THEN Append(tcm, E.s) ELSE tcm
  /\ UNCHANGED <<G, L, cur, sstack, pos, lastoff, acts, cmts, phase, lin, li, maxd, ref, base>>
TreeEnd ==
  /\ IsEvent("close") /\ phase = "tree" /\ li = Len(lin)
  /\ off = cur.len /\ tcm = cmts          \* leaves cover the text; every comment delivered once
  /\ phase' = "done"
  /\ UNCHANGED <<G, L, cur, sstack, pos, lastoff, acts, cmts, lin, li, off, tcm, maxd, ref, base>>

InLang == IF L = <<>> \/ Len(Input) > G.n THEN "unknown"
          ELSE IF Input \in L[G.start] THEN "yes" ELSE "no"

ResultOk ==
  /\ IsEvent("result") /\ E.ok
  /\ InLang # "no"
  /\ (~G.resolved => InLang # "no")
  /\ IF cur.opts.trim THEN phase = "parse" ELSE phase = "done"
  /\ Len(sstack) = 1 /\ sstack[1].k = "n" /\ sstack[1].v = G.start /\ pos = Len(Input)
  /\ IF cur.ref THEN ref' = [ok |-> TRUE, acts |-> acts, cmts |-> cmts, maxd |-> maxd]
     ELSE /\ ref.ok /\ acts = ref.acts /\ cmts = ref.cmts
          /\ (Limit < 0 \/ Limit >= ref.maxd)
          /\ UNCHANGED ref
  /\ IF cur.newinput THEN base' = [ok |-> TRUE, acts |-> acts]
     ELSE base.ok /\ acts = base.acts /\ UNCHANGED base
  /\ phase' = "idle"
  /\ UNCHANGED <<G, L, cur, sstack, pos, lastoff, acts, cmts, lin, li, off, tcm, maxd>>

ResultErr ==
  /\ IsEvent("result") /\ ~E.ok /\ phase = "parse"
  /\ IF E.err.kind = "MaxParsingDepthExceeded"
     THEN /\ Limit >= 0
          /\ IF cur.ref
             THEN \* the reference run carries a large limit as a guard against runaway tables
                  /\ ref' = [ok |-> FALSE, acts |-> acts, cmts |-> cmts, maxd |-> maxd]
                  /\ base' = IF cur.newinput THEN [ok |-> FALSE, acts |-> acts] ELSE base
             ELSE /\ (ref.ok => Limit < ref.maxd)
                  /\ IsPrefix(acts, ref.acts)
                  /\ UNCHANGED <<ref, base>>
     ELSE \* a conflict-free table rejects non-sentences only
          /\ (~G.resolved => InLang # "yes")
          /\ IF cur.ref THEN ref' = [ok |-> FALSE, acts |-> acts, cmts |-> cmts, maxd |-> maxd]
             ELSE ~ref.ok /\ acts = ref.acts /\ UNCHANGED ref
          /\ IF cur.newinput THEN base' = [ok |-> FALSE, acts |-> acts]
             ELSE ~base.ok /\ acts = base.acts /\ UNCHANGED base
  /\ phase' = "idle"
  /\ UNCHANGED <<G, L, cur, sstack, pos, lastoff, acts, cmts, lin, li, off, tcm, maxd>>

Next == \/ Grammar \/ Run \/ Reduce \/ Comment \/ TreeStart \/ TreeOpen \/ TreeClose \/ TreeTok
        \/ TreeSkip \/ TreeEnd \/ ResultOk \/ ResultErr
TraceSpec == Init /\ [][Next]_vars

TypeOk == pos <= (IF cur = <<>> THEN 0 ELSE Len(cur.input)) /\ li <= Len(lin)
\* the yield of the symbol stack is the input read so far
RECURSIVE Yield(_)
Yield(t) == IF t.k = "t" THEN <<t.v>> ELSE FlattenSeq([i \in 1..Len(t.ch) |-> Yield(t.ch[i])])
StackYield == phase = "parse" =>
                FlattenSeq([i \in 1..Len(sstack) |-> Yield(sstack[i])]) = SubSeq(cur.input, 1, pos)

TraceAccepted ==
  LET d == TLCGet("stats").diameter - 1 IN
  IF d = Len(Rec) THEN TRUE
  ELSE PrintT(<<"UNMATCHED", d + 1, ToJson(Rec[d + 1])>>) /\ FALSE
=============================================================================
