------------------------------- MODULE Solvers -------------------------------
(***************************************************************************)
(* HOW parol computes FIRST_k and FOLLOW_k (first.rs, follow.rs,           *)
(* k_decision.rs), as opposed to WHAT they are (LLAnalysis.tla):           *)
(*  - FIRST_k: Jacobi iteration (every equation recomputed from the        *)
(*    previous vector), started from the FIRST_(k-1) result (k = 0: {eps}  *)
(*    for every non-terminal), stopped when the vector repeats.            *)
(*  - FOLLOW_k: one equation per non-terminal occurrence, applied in       *)
(*    production order inside a pass with the per-non-terminal sets        *)
(*    accumulated in place (Gauss-Seidel); the per-position map of a pass  *)
(*    is compared with the previous map (seeded with the final map of      *)
(*    k-1) to decide termination.                                          *)
(*  - per-k caches filled on demand, slot k computed from slot k-1.        *)
(* The invariants say that this yields the least fixpoints of LLAnalysis.  *)
(***************************************************************************)
EXTENDS LLAnalysis

Fuel == 40   \* iteration bound; exhausting it is reported as non-termination

RECURSIVE JacobiFrom(_, _, _, _)
JacobiFrom(G, F, k, fuel) ==
  IF fuel = 0 THEN [A \in G.nts |-> {<<"nonterminating">>}]
  ELSE LET F2 == FirstStep(G, F, k) IN IF F2 = F THEN F ELSE JacobiFrom(G, F2, k, fuel - 1)

RECURSIVE ChainFirst(_, _)
ChainFirst(G, k) ==
  IF k = 0 THEN JacobiFrom(G, [A \in G.nts |-> {<<>>}], 0, Fuel)
  ELSE JacobiFrom(G, ChainFirst(G, k - 1), k, Fuel)

\* ---- FOLLOW: equations in production order, positions left to right
Eqs(G) == LET poss(i) == SelectSeq([j \in 1..Len(Rhs(G, i)) |-> <<i, j>>],
                                   LAMBDA p : IsNT(G, Rhs(G, p[1])[p[2]]))
          IN FlattenSeq([i \in ProdIdx(G) |-> poss(i)])

\* one Gauss-Seidel pass: returns [map |-> position results, nts |-> accumulated sets]
RECURSIVE GSPass(_, _, _, _, _, _)
GSPass(G, F1, eqs, k, map, nts) ==
  IF eqs = <<>> THEN [map |-> map, nts |-> nts]
  ELSE LET p == Head(eqs)
           rhs == Rhs(G, p[1])
           tgt == rhs[p[2]]
           res == KCat(FirstSeq(G, F1, SubSeq(rhs, p[2] + 1, Len(rhs)), k), nts[Lhs(G, p[1])], k)
       IN GSPass(G, F1, Tail(eqs), k, [map EXCEPT ![p] = res],
                 [nts EXCEPT ![tgt] = @ \cup res])

RECURSIVE GSLoop(_, _, _, _, _, _)
GSLoop(G, F1, k, prevMap, nts, fuel) ==
  IF fuel = 0 THEN [map |-> prevMap, nts |-> [A \in G.nts |-> {<<"nonterminating">>}]]
  ELSE LET r == GSPass(G, F1, Eqs(G), k, [p \in Range(Eqs(G)) |-> {}], nts)
       IN IF r.map = prevMap THEN r ELSE GSLoop(G, F1, k, r.map, r.nts, fuel - 1)

RECURSIVE ChainFollow(_, _)
ChainFollow(G, k) ==
  LET nts0 == [A \in G.nts |-> IF A = G.start THEN {KTrunc(<<End>>, k)} ELSE {}]
      seed == IF k = 0 THEN [p \in Range(Eqs(G)) |-> {}] ELSE ChainFollow(G, k - 1).map
  IN GSLoop(G, ChainFirst(G, k), k, seed, nts0, Fuel)

\* ---- the invariants
JacobiReachesLfp(G, K) == \A k \in 0..K : ChainFirst(G, k) = FirstNT(G, k)
GSReachesLfp(G, K) == \A k \in 0..K : ChainFollow(G, k).nts = FollowNT(G, FirstNT(G, k), k)

\* the reason C06 is stated for left-recursion-free grammars: with (hidden) left recursion the
\* FIRST equations have several fixpoints and a seeded iteration may stop at a non-least one.
SeedMayMatter(G, K) == \E k \in 1..K : ChainFirst(G, k) # FirstNT(G, k)
=============================================================================
