------------------------------ MODULE LLParser ------------------------------
(***************************************************************************)
(* The push-down automaton of parol_runtime::LLKParser::parse_into as a    *)
(* trace specification: the recorded calls the parser makes on its tree    *)
(* builder (`open`, `tok`, `close`) and on the user actions (`action`,     *)
(* `comment`) plus the final `result` must be a run of this machine over   *)
(* parol's own transformed grammar (event `grammar`, read from the         *)
(* generated tables).                                                      *)
(*                                                                         *)
(* One `grammar` event is followed by any number of runs.  A run starts    *)
(* with a `run` event (input token types, options).  The first run of an   *)
(* input (ref = TRUE: untrimmed, recovery on, no depth limit) is the       *)
(* reference; the other runs of the same input must perform the same       *)
(* semantic actions and reach the same verdict (C20).                      *)
(*                                                                         *)
(* Checked per step: C02 (every `open` is the expansion of the non-terminal *)
(* on top of the stack, every `tok` matches the terminal on top and the    *)
(* next input token, every `action` is an end-of-production whose children *)
(* are exactly its right-hand side), C08 (an expansion is enabled only if  *)
(* the remaining input starts with a lookahead string of the production),  *)
(* C14 (token events are contiguous and the leaves are the tokens), C17    *)
(* (comments are delivered once, in order), C01 (`ok` only with the whole  *)
(* input derived; verdict = membership in the bounded language), C19/C20   *)
(* (depth accounting).                                                     *)
(***************************************************************************)
EXTENDS LLAnalysis, TLC, Json, IOUtils

Rec == ndJsonDeserialize(IOEnv.TRACE)

VARIABLES l,        \* next trace line
          G,        \* grammar of the current case: [start, nts, prods, push, kof, n]
          L,        \* LangAll(G, G.n) or <<>> when not computed
          an,       \* Analyses(G, max k) (sequence indexed by k)
          cur,      \* header of the current run
          stack,    \* parser stack, top = last; entries [k |-> "n"|"t"|"e", v |-> ..]
          pos,      \* number of significant tokens consumed
          tstack,   \* parse tree stack
          acts,     \* sequence of <<prod, nchildren>>
          cmts,     \* offsets of the comments delivered so far
          phase,
          depth, maxd,
          off,      \* end offset of the last token event (contiguity)
          pend,     \* offset of a comment token announced by `tok` and not yet delivered, or -1
          ref,      \* reference run of this text: [ok, acts, cmts, maxd]
          base      \* first run of this token string: [ok, acts]; texts that differ only in skipped
                    \* tokens (white space, comments) must be parsed identically (C17)
vars == <<l, G, L, an, cur, stack, pos, tstack, acts, cmts, phase, depth, maxd, off, pend, ref, base>>

IsEvent(e) == l <= Len(Rec) /\ Rec[l].ev = e /\ l' = l + 1
E == Rec[l]

Sym(s)  == IF IsNT(G, s) THEN [k |-> "n", v |-> s] ELSE [k |-> "t", v |-> s]
RhsS(p) == [i \in 1..Len(G.prods[p].rhs) |-> Sym(G.prods[p].rhs[i])]
Top     == stack[Len(stack)]
Pop     == SubSeq(stack, 1, Len(stack) - 1)
PushProd(st, p) == st \o <<[k |-> "e", v |-> p]>> \o Reverse(RhsS(p))
Input   == cur.input
Limit   == cur.opts.depth          \* -1 = none
Window  == SubSeq(Input, pos + 1, Len(Input)) \o <<End>>

NoVars == UNCHANGED <<G, L, an, cur, stack, pos, tstack, acts, cmts, depth, maxd, off, pend, ref, base>>

Init == /\ l = 1 /\ G = [start |-> "", nts |-> {}, prods |-> <<>>] /\ L = <<>> /\ an = <<>>
        /\ cur = <<>> /\ stack = <<>> /\ pos = 0 /\ tstack = <<>> /\ acts = <<>> /\ cmts = <<>>
        /\ phase = "idle" /\ depth = 0 /\ maxd = 0 /\ off = 0 /\ pend = -1
        /\ ref = [ok |-> FALSE, acts |-> <<>>, cmts |-> <<>>, maxd |-> 0]
        /\ base = [ok |-> FALSE, acts |-> <<>>]

Grammar ==
  /\ IsEvent("grammar") /\ phase = "idle"
  /\ LET gg == [start |-> E.g.start, nts |-> Range(E.g.nts), prods |-> E.g.prods,
                push |-> E.push, kof |-> E.kof, n |-> E.n]
         maxk == Max({0} \cup {E.kof[A] : A \in DOMAIN E.kof})
     IN /\ G' = gg
        /\ L' = IF E.n >= 0 THEN LangAll(gg, E.n) ELSE <<>>
        /\ an' = IF E.la THEN Analyses(gg, maxk) ELSE <<>>
  /\ UNCHANGED <<cur, stack, pos, tstack, acts, cmts, phase, depth, maxd, off, pend, ref, base>>

\* C08: LookaheadDFA::eval called directly on a token window (recorded between runs).  The window is
\* the list of upcoming significant token types; end of input follows it.
Eval ==
  /\ IsEvent("eval") /\ phase = "idle"
  /\ LET A == E.nt
         k == G.kof[A]
         w == E.window \o <<End>>
         matching == IF k = 0 THEN ProdsOf(G, A)
                     ELSE {p \in ProdsOf(G, A) : \E x \in an[k].la[p] : IsPrefix(x, w)}
     IN /\ E.res >= 0 => (E.res + 1) \in matching       \* never guesses
        /\ matching = {} => E.res = -1                  \* reports the prediction error
        /\ matching # {} => (E.res + 1) \in matching     \* and finds the production when there is one
  /\ UNCHANGED <<G, L, an, cur, stack, pos, tstack, acts, cmts, phase, depth, maxd, off, pend, ref, base>>

Run ==
  /\ IsEvent("run") /\ phase = "idle"
  /\ cur' = E
  /\ stack' = <<>> /\ pos' = 0 /\ tstack' = <<>> /\ acts' = <<>> /\ cmts' = <<>>
  /\ depth' = 0 /\ maxd' = 0 /\ off' = 0 /\ pend' = -1
  /\ phase' = IF E.opts.trim THEN "trim" ELSE "root"
  /\ UNCHANGED <<G, L, an, ref, base>>

OpenRoot == /\ IsEvent("open") /\ phase = "root" /\ E.nt = ""
            /\ phase' = "start"
            /\ NoVars

\* C08: the production may be predicted only if the remaining input starts with one of its
\* lookahead strings (k = the lookahead parol assigned to the non-terminal)
LaOk(A, p) == IF an = <<>> THEN TRUE
              ELSE IF G.kof[A] = 0 THEN TRUE
              ELSE \E x \in an[G.kof[A]].la[p] : IsPrefix(x, Window)

Predict ==
  /\ IsEvent("open") /\ phase \in {"start", "run"} /\ pend = -1
  /\ LET A == E.nt IN
     /\ IF phase = "start" THEN A = G.start ELSE Top = [k |-> "n", v |-> A]
     /\ \E p \in ProdsOf(G, A) :
          /\ LaOk(A, p)
          /\ stack' = PushProd(IF phase = "start" THEN stack ELSE Pop, p)
          /\ LET d == IF G.push[p] THEN depth ELSE depth + 1 IN
             /\ depth' = d /\ maxd' = IF d > maxd THEN d ELSE maxd
             /\ phase' = IF Limit >= 0 /\ d > Limit THEN "deptherr" ELSE "run"
     /\ tstack' = Append(tstack, [k |-> "m", v |-> A])
  /\ UNCHANGED <<G, L, an, cur, pos, acts, cmts, off, pend, ref, base>>

Match ==
  /\ IsEvent("tok") /\ ~E.skip /\ phase = "run" /\ pend = -1
  /\ Top = [k |-> "t", v |-> E.sym]
  /\ pos < Len(Input) /\ Input[pos + 1] = E.sym /\ cur.offs[pos + 1] = E.s
  /\ E.s = off /\ E.e >= E.s /\ off' = E.e
  /\ stack' = Pop /\ pos' = pos + 1
  /\ tstack' = Append(tstack, [k |-> "t", v |-> E.sym, s |-> E.s])
  /\ UNCHANGED <<G, L, an, cur, acts, cmts, phase, depth, maxd, pend, ref, base>>

\* skipped tokens (white space, comments, unmatched gaps, state specific skip tokens) are leaves of
\* the tree wherever they occur; they never touch the parser state (C17)
SkipTok ==
  /\ IsEvent("tok") /\ E.skip /\ phase \in {"start", "run", "closeroot"} /\ pend = -1
  /\ E.s = off /\ E.e >= E.s /\ off' = E.e
  /\ pend' = IF E.ty \in {3, 4} THEN E.s ELSE -1
  /\ UNCHANGED <<G, L, an, cur, stack, pos, tstack, acts, cmts, phase, depth, maxd, ref, base>>

Comment ==
  /\ IsEvent("comment") /\ phase \in {"start", "run", "closeroot"}
  /\ pend = E.s /\ pend' = -1
  /\ cmts' = Append(cmts, E.s)
  /\ UNCHANGED <<G, L, an, cur, stack, pos, tstack, acts, phase, depth, maxd, off, ref, base>>

ChildOk(c, s) == IF s.k = "t" THEN c.k = "t" /\ c.v = s.v ELSE c = [k |-> "n", v |-> s.v]
ArgOk(a, c)   == IF c.k = "t" THEN a.k = "t" /\ a.sym = c.v /\ a.s = c.s
                              ELSE a.k = "n" /\ a.nt = c.v

EndProd ==
  /\ IsEvent("action") /\ phase = "run" /\ pend = -1
  /\ LET p == E.prod + 1
         n == E.n
         r == RhsS(p) IN
     /\ Top = [k |-> "e", v |-> p]
     /\ n = Len(r) /\ Len(tstack) >= n + 1 /\ Len(E.ch) = n
     /\ \A i \in 1..n : /\ ChildOk(tstack[Len(tstack) - n + i], r[i])
                        /\ ArgOk(E.ch[i], tstack[Len(tstack) - n + i])
     /\ tstack[Len(tstack) - n] = [k |-> "m", v |-> G.prods[p].lhs]
     /\ tstack' = Append(SubSeq(tstack, 1, Len(tstack) - n - 1), [k |-> "n", v |-> G.prods[p].lhs])
     /\ acts' = Append(acts, <<p - 1, n>>)
     /\ depth' = IF G.push[p] THEN depth ELSE depth - 1
  /\ stack' = Pop /\ phase' = "closing"
  /\ UNCHANGED <<G, L, an, cur, pos, cmts, maxd, off, pend, ref, base>>

Close == /\ IsEvent("close") /\ phase = "closing"
         /\ phase' = IF stack = <<>> THEN "closeroot" ELSE "run"
         /\ NoVars
CloseRoot == /\ IsEvent("close") /\ phase = "closeroot" /\ pend = -1
             /\ phase' = "finish"
             /\ NoVars

\* ---- runs that leave the happy path.  Whatever the parser does after its first error (recovery
\* edits the token stream) is not modelled; what is demanded is that no semantic action follows
\* and that the run does not end in success.
\* (`cur.ok` is the final verdict of the run, copied into its header by the recorder: successful runs
\* are validated without this escape, so their validation is linear.)
EnterErr == /\ l <= Len(Rec) /\ E.ev \in {"open", "tok", "close", "comment"} /\ l' = l + 1
            /\ ~cur.ok
            /\ phase \in {"root", "start", "run", "closing", "closeroot", "finish", "err"}
            /\ phase' = "err"
            /\ NoVars

\* ---- trimmed runs: only actions and comments are observable; they are compared with the reference
ActionTrim ==
  /\ IsEvent("action") /\ phase = "trim"
  /\ Len(acts) < Len(ref.acts) /\ ref.acts[Len(acts) + 1] = <<E.prod, E.n>>
  /\ acts' = Append(acts, <<E.prod, E.n>>)
  /\ UNCHANGED <<G, L, an, cur, stack, pos, tstack, cmts, phase, depth, maxd, off, pend, ref, base>>
CommentTrim ==
  /\ IsEvent("comment") /\ phase = "trim"
  \* accepted input: exactly the comments of the reference run, in order; rejected input: at most
  \* once and in order
  /\ IF ref.ok THEN Len(cmts) < Len(ref.cmts) /\ ref.cmts[Len(cmts) + 1] = E.s
               ELSE IF cmts = <<>> THEN TRUE ELSE cmts[Len(cmts)] < E.s
  /\ cmts' = Append(cmts, E.s)
  /\ UNCHANGED <<G, L, an, cur, stack, pos, tstack, acts, phase, depth, maxd, off, pend, ref, base>>

\* the root node is opened and closed also when the tree is trimmed
RootTrim == /\ l <= Len(Rec) /\ phase = "trim" /\ l' = l + 1
            /\ \/ E.ev = "open" /\ E.nt = ""
               \/ E.ev = "close"
            /\ UNCHANGED <<G, L, an, cur, stack, pos, tstack, acts, cmts, phase, depth, maxd, off, pend, ref, base>>

InLang == IF L = <<>> \/ Len(Input) > G.n THEN "unknown"
          ELSE IF Input \in L[G.start] THEN "yes" ELSE "no"

SameAsRef == acts = ref.acts /\ (ref.ok => cmts = ref.cmts)

ResultOk ==
  /\ IsEvent("result") /\ E.ok /\ cur.ok
  /\ InLang # "no"
  /\ IF cur.opts.trim
     THEN phase = "trim"
     ELSE /\ phase = "finish" /\ stack = <<>> /\ pos = Len(Input) /\ depth = 0
          /\ tstack = <<[k |-> "n", v |-> G.start]>>
          /\ off = cur.len                                  \* the leaves cover the whole text
  /\ IF cur.ref
     THEN ref' = [ok |-> TRUE, acts |-> acts, cmts |-> cmts, maxd |-> maxd]
     ELSE /\ ref.ok /\ SameAsRef
          /\ (Limit < 0 \/ Limit >= ref.maxd)
          /\ UNCHANGED ref
  /\ IF cur.newinput THEN base' = [ok |-> TRUE, acts |-> acts]
     ELSE base.ok /\ acts = base.acts /\ UNCHANGED base
  /\ phase' = "idle"
  /\ UNCHANGED <<G, L, an, cur, stack, pos, tstack, acts, cmts, depth, maxd, off, pend>>

ResultErr ==
  /\ IsEvent("result") /\ ~E.ok /\ ~cur.ok /\ phase # "idle"
  /\ IF E.err.kind = "MaxParsingDepthExceeded"
     THEN /\ Limit >= 0 /\ ~cur.ref
          \* after the first syntax error (phase "err") the nesting is no longer tracked
          /\ IF cur.opts.trim THEN (ref.ok => Limit < ref.maxd) ELSE phase \in {"deptherr", "err"}
          /\ IsPrefix(acts, ref.acts)
          /\ UNCHANGED <<ref, base>>
     ELSE /\ phase # "deptherr"
          /\ InLang # "yes"
          /\ IF cur.ref
             THEN ref' = [ok |-> FALSE, acts |-> acts, cmts |-> cmts, maxd |-> maxd]
             ELSE /\ ~ref.ok /\ acts = ref.acts
                  /\ UNCHANGED ref
          /\ IF cur.newinput THEN base' = [ok |-> FALSE, acts |-> acts]
             ELSE ~base.ok /\ acts = base.acts /\ UNCHANGED base
  /\ phase' = "idle"
  /\ UNCHANGED <<G, L, an, cur, stack, pos, tstack, acts, cmts, depth, maxd, off, pend>>

Next == \/ Grammar \/ Eval \/ Run \/ OpenRoot \/ Predict \/ Match \/ SkipTok \/ Comment \/ EndProd
        \/ Close \/ CloseRoot \/ EnterErr \/ ActionTrim \/ CommentTrim \/ RootTrim \/ ResultOk \/ ResultErr
TraceSpec == Init /\ [][Next]_vars

\* ---- invariants evaluated at every step of every validated execution
TypeOk == /\ pos <= (IF cur = <<>> THEN 0 ELSE Len(cur.input))
          /\ depth >= 0 /\ maxd >= depth
StackTreeAgree ==   \* the number of open production markers equals the number of end markers
  phase \in {"run"} =>
     Cardinality({i \in 1..Len(tstack) : tstack[i].k = "m"}) =
     Cardinality({i \in 1..Len(stack) : stack[i].k = "e"})

TraceAccepted ==
  LET d == TLCGet("stats").diameter - 1 IN
  IF d = Len(Rec) THEN TRUE
  ELSE PrintT(<<"UNMATCHED", d + 1, ToJson(Rec[d + 1])>>) /\ FALSE
=============================================================================
