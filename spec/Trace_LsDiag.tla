---------------------------- MODULE Trace_LsDiag ----------------------------
(* TV for C29: every recorded session of the real server {texts, schedule, published (observed)}     *)
(* (a) must be a behaviour of the as-coded model of LsDiag.tla (same publish sequence), and           *)
(* (b) must end with the diagnostics of the final text at the final version (the property).           *)
(* A failing session is reported with the reason; validation continues.                               *)
EXTENDS Naturals, Sequences, TLC, Json, IOUtils
L == INSTANCE LsDiag WITH Texts <- {}, MaxEdits <- 0, AsCoded <- TRUE, sent <- <<>>, handled <- 0,
        doc <- [ver |-> 0, txt |-> "ok"], pendingOk <- 0, okSent <- {}, threads <- {}, published <- <<>>, hist <- <<>>
Rec == ndJsonDeserialize(IOEnv.TRACE)
VARIABLE l
E == Rec[l]
Pairs(s) == [i \in 1..Len(s) |-> <<s[i][1], s[i][2]>>]
Check ==
  /\ l <= Len(Rec) /\ E.ev = "session" /\ l' = l + 1
  /\ LET obs == Pairs(E.published)
         model == L!AsCodedPublishes(E.texts, Pairs(E.schedule))
         n == Len(E.texts)
         conform == obs = model
         current == obs # <<>> /\ obs[Len(obs)] = <<n, L!Diag(E.texts[n])>>
     IN IF conform /\ current THEN TRUE
        ELSE PrintT(<<"REJECT", l, ToJson([why |-> (IF conform THEN {} ELSE {"not_a_behaviour_of_the_model"})
                                                   \cup (IF current THEN {} ELSE {"final_diagnostics_not_current"}),
                                           texts |-> E.texts, schedule |-> E.schedule, published |-> E.published,
                                           model |-> model])>>)
Init == l = 1
TraceSpec == Init /\ [][Check]_l
TraceAccepted ==
  LET d == TLCGet("stats").diameter - 1 IN
  IF d = Len(Rec) THEN TRUE
  ELSE PrintT(<<"UNMATCHED", d + 1, ToJson(Rec[d + 1])>>) /\ FALSE
=============================================================================
