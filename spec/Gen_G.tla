-------------------------------- MODULE Gen_G --------------------------------
(* Plain grammar vectors (C10, C12): the transformation under test is run by the harness and its   *)
(* input/output pair is validated by Xform.tla.  Filter selects which grammars are interesting.    *)
EXTENDS GrammarEnum
CONSTANT Filter      \* "all" | "wf" | "wfll" | "startprod"

Interesting == CASE Filter = "wf" -> WellFormed(G)
                 [] Filter = "wfll" -> WellFormedLL(G)
                 [] Filter = "startprod" -> ProdsOf(G, G.start) # {}
                 [] OTHER -> TRUE
Emit == (done /\ Interesting) => PrintT(<<"VEC", ToJson([g |-> GJson(G)])>>)
=============================================================================
