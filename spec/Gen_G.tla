-------------------------------- MODULE Gen_G --------------------------------
(* Plain grammar vectors (C10, C12): the transformation under test is run by the harness and its   *)
(* input/output pair is validated by Xform.tla.  Filter selects which grammars are interesting.    *)
EXTENDS GrammarEnum
CONSTANT Filter      \* "all" | "wf" | "wfll" | "startprod" | "tie"

\* C24: left factoring picks the largest group of alternatives with a common first symbol; a TIE is a
\* non-terminal with two different first symbols that each start the same maximal number (>= 2) of
\* alternatives - the situation in which the outcome depends on which group is taken first
FirstGroups(A) == {x \in RhsSyms(G) : Cardinality({i \in ProdsOf(G, A) : Rhs(G, i) # <<>> /\ Rhs(G, i)[1] = x}) >= 2}
GroupSize(A, x) == Cardinality({i \in ProdsOf(G, A) : Rhs(G, i) # <<>> /\ Rhs(G, i)[1] = x})
HasTie == \E A \in G.nts : \E x, y \in FirstGroups(A) :
             x # y /\ GroupSize(A, x) = GroupSize(A, y) /\ \A z \in FirstGroups(A) : GroupSize(A, z) <= GroupSize(A, x)

Interesting == CASE Filter = "wf" -> WellFormed(G)
                 [] Filter = "wfll" -> WellFormedLL(G)
                 [] Filter = "startprod" -> ProdsOf(G, G.start) # {}
                 [] Filter = "tie" -> WellFormedLL(G) /\ HasTie
                 [] OTHER -> TRUE
Emit == (done /\ Interesting) => PrintT(<<"VEC", ToJson([g |-> GJson(G)])>>)
=============================================================================
