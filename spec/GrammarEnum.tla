---------------------------- MODULE GrammarEnum ----------------------------
(***************************************************************************)
(* The universe of small BNF grammars as a state machine: a grammar is     *)
(* grown production by production in the canonical order of the production *)
(* universe PS (so every set of <= MaxProds productions is reached exactly *)
(* once), `Fin` closes it.  Modules that extend this one attach oracles    *)
(* (as invariants over `done` states) and vector emission.                 *)
(***************************************************************************)
EXTENDS Grammar, TLC, Json
CONSTANTS NTs,        \* non-terminal names; "S" is the start symbol
          Ts,         \* terminal names
          MaxProds,   \* maximal number of productions
          MinProds,   \* minimal number of productions (1 for exhaustive runs; larger for random walks)
          MaxRhs,     \* maximal length of a right-hand side
          Shard, NShards,  \* this process explores grammars whose first production index = Shard mod NShards
          Ordered     \* TRUE: productions are added in the canonical order of PS (exhaustive enumeration without
                      \* repetition); FALSE: in any order (random walks of `tlc -simulate` over larger universes)

VARIABLES g,      \* sequence of indices into PS, strictly increasing
          done
evars == <<g, done>>

Start == "S"
Syms   == NTs \cup Ts
SeqsUpTo(n) == UNION {[1..m -> Syms] : m \in 0..n}
\* exhaustive mode: every right-hand side up to MaxRhs; random-walk mode: right-hand sides that are
\* empty, start with a terminal, or start with a non-terminal and have length <= 2 (high yield of
\* grammars that are LL(k) for some k in 1..3, with nullable prefixes and FOLLOW interplay)
AllRhs == IF Ordered THEN SeqsUpTo(MaxRhs)
          ELSE {<<>>} \cup {<<t>> \o r : t \in Ts, r \in SeqsUpTo(MaxRhs - 1)}
                      \cup {<<A>> \o r : A \in NTs, r \in SeqsUpTo(1)}
AllProds == {[lhs |-> A, rhs |-> r] : A \in NTs, r \in AllRhs}
PS == SetToSeq(AllProds)
IdxOf == [A \in NTs |-> {i \in 1..Len(PS) : PS[i].lhs = A}]

ProdSeq(s) == [i \in 1..Len(s) |-> PS[s[i]]]
NtsOf(ps) == {Start} \cup {ps[i].lhs : i \in 1..Len(ps)}
              \cup (UNION {Range(ps[i].rhs) : i \in 1..Len(ps)} \cap NTs)
GrammarOf(s) == LET ps == ProdSeq(s) IN [start |-> Start, nts |-> NtsOf(ps), prods |-> ps]
G == GrammarOf(g)

EInit == g = <<>> /\ done = FALSE
\* exhaustive mode: canonical order
AddOrdered == /\ ~done /\ Len(g) < MaxProds
              /\ \E i \in (IF g = <<>> THEN 1 ELSE g[Len(g)] + 1)..Len(PS) :
                   /\ (g = <<>> => i % NShards = Shard)
                   /\ g' = Append(g, i)
              /\ UNCHANGED done
\* random-walk mode: grow the grammar top-down so that it stays connected: the next production is
\* for a reachable non-terminal, preferably one that has no production yet
Needy == {A \in Reachable(G) : ProdsOf(G, A) = {}}
AddGuided == /\ ~done /\ Len(g) < MaxProds
             /\ \E A \in (IF g = <<>> THEN {Start} ELSE IF Needy # {} THEN Needy ELSE Reachable(G)) :
                  \E i \in IdxOf[A] :
                     /\ \A j \in 1..Len(g) : g[j] # i
                     /\ g' = Append(g, i)
             /\ UNCHANGED done
Add == IF Ordered THEN AddOrdered ELSE AddGuided
Fin == ~done /\ Len(g) >= MinProds /\ (Ordered \/ Needy = {}) /\ done' = TRUE /\ UNCHANGED g
ENext == Add \/ Fin
ESpec == EInit /\ [][ENext]_evars

\* JSON form of a grammar (sets become arrays)
GJson(Gr) == [start |-> Gr.start, nts |-> Gr.nts, prods |-> Gr.prods]
=============================================================================
