---------------------------- MODULE GrammarEnum ----------------------------
(***************************************************************************)
(* The universe of small BNF grammars as a state machine: a grammar is     *)
(* grown production by production in the canonical order of the production *)
(* universe PS (so every set of <= MaxProds productions is reached exactly *)
(* once), `Fin` closes it.  Modules that extend this one attach oracles    *)
(* (as invariants over `done` states) and vector emission.                 *)
(***************************************************************************)
EXTENDS Grammar, TLC, Json
CONSTANTS NTs,        \* non-terminal names; "S" is the start symbol
          Ts,         \* terminal names
          MaxProds,   \* maximal number of productions
          MaxRhs,     \* maximal length of a right-hand side
          Shard, NShards   \* this process explores grammars whose first production index = Shard mod NShards

VARIABLES g,      \* sequence of indices into PS, strictly increasing
          done
evars == <<g, done>>

Start == "S"
Syms   == NTs \cup Ts
AllRhs == UNION {[1..n -> Syms] : n \in 0..MaxRhs}
AllProds == {[lhs |-> A, rhs |-> r] : A \in NTs, r \in AllRhs}
PS == SetToSeq(AllProds)

ProdSeq(s) == [i \in 1..Len(s) |-> PS[s[i]]]
NtsOf(ps) == {Start} \cup {ps[i].lhs : i \in 1..Len(ps)}
              \cup (UNION {Range(ps[i].rhs) : i \in 1..Len(ps)} \cap NTs)
GrammarOf(s) == LET ps == ProdSeq(s) IN [start |-> Start, nts |-> NtsOf(ps), prods |-> ps]
G == GrammarOf(g)

EInit == g = <<>> /\ done = FALSE
Add == /\ ~done /\ Len(g) < MaxProds
       /\ \E i \in (IF g = <<>> THEN 1 ELSE g[Len(g)] + 1)..Len(PS) :
            /\ (g = <<>> => i % NShards = Shard)
            /\ g' = Append(g, i)
       /\ UNCHANGED done
Fin == ~done /\ g # <<>> /\ done' = TRUE /\ UNCHANGED g
ENext == Add \/ Fin
ESpec == EInit /\ [][ENext]_evars

\* JSON form of a grammar (sets become arrays)
GJson(Gr) == [start |-> Gr.start, nts |-> Gr.nts, prods |-> Gr.prods]
=============================================================================
