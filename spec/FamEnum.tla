------------------------------- MODULE FamEnum -------------------------------
(***************************************************************************)
(* Lookahead-set families (C01, C07, C08): every way to give each string   *)
(* of length L over the terminals to production group X, to group Y or to  *)
(* neither.  The grammar  S: X | Y;  X: <its strings>;  Y: <its strings>;  *)
(* makes S's lookahead sets exactly these two families, so S needs k = L   *)
(* whenever the groups share a prefix of length L-1, and its lookahead     *)
(* automaton is an arbitrary two-coloured trie of depth L - minimisation   *)
(* merges equivalent interior states in every possible pattern (shared     *)
(* sub-automata, back edges in the state numbering).  The language is the  *)
(* set of assigned strings.                                                 *)
(***************************************************************************)
EXTENDS Grammar, TLC, Json
CONSTANTS NTerm,        \* number of terminals (taken from a, b, c)
          L,            \* string length
          Shard, NShards

TsSeq == SubSeq(<<"a", "b", "c">>, 1, NTerm)
N == NTerm
RECURSIVE Pow(_, _)
Pow(b, e) == IF e = 0 THEN 1 ELSE b * Pow(b, e - 1)
NStr == Pow(N, L)
StrOf(i) == [j \in 1..L |-> TsSeq[((i \div Pow(N, L - j)) % N) + 1]]

VARIABLES i, asg, done
vars == <<i, asg, done>>
Init == i = 0 /\ asg = <<>> /\ done = FALSE
Code(c) == CASE c = "X" -> 0 [] c = "Y" -> 1 [] OTHER -> 2
\* symmetry: the first assigned string goes to X; sharding on the first three choices
Allowed(c) == /\ (c = "Y" => \E j \in 1..Len(asg) : asg[j] = "X")
              /\ (Len(asg) = 2 => (Code(asg[1]) * 9 + Code(asg[2]) * 3 + Code(c)) % NShards = Shard)
Next == \/ ~done /\ i < NStr /\ \E c \in {"X", "Y", "-"} : Allowed(c) /\ asg' = Append(asg, c) /\ i' = i + 1 /\ UNCHANGED done
        \/ ~done /\ i = NStr /\ done' = TRUE /\ UNCHANGED <<i, asg>>
Spec == Init /\ [][Next]_vars

Of(c) == {j \in 1..Len(asg) : asg[j] = c}
RECURSIVE ProdsOfSet(_, _)
ProdsOfSet(nt, S) == IF S = {} THEN <<>>
                     ELSE LET j == CHOOSE x \in S : \A y \in S : x <= y
                          IN <<[lhs |-> nt, rhs |-> StrOf(j - 1)]>> \o ProdsOfSet(nt, S \ {j})
G == [start |-> "S", nts |-> {"S", "X", "Y"},
      prods |-> <<[lhs |-> "S", rhs |-> <<"X">>], [lhs |-> "S", rhs |-> <<"Y">>]>> \o ProdsOfSet("X", Of("X")) \o ProdsOfSet("Y", Of("Y"))]
Interesting == Of("X") # {} /\ Of("Y") # {}
GJsonF == [start |-> G.start, nts |-> G.nts, prods |-> G.prods]
=============================================================================
