------------------------------- MODULE Grammar -------------------------------
(***************************************************************************)
(* Context-free grammars in BNF and the definitions parol's analyses must  *)
(* agree with.  Pure definitions, no variables.                            *)
(*                                                                         *)
(* A grammar is a record                                                   *)
(*     [start |-> "S", nts |-> {"S","A"}, prods |-> << [lhs, rhs], ... >>] *)
(* Symbols are strings; a symbol is a non-terminal iff it is in G.nts,     *)
(* every other symbol occurring in a right-hand side is a terminal.        *)
(* "$" is the end-of-input marker and never occurs in a right-hand side.   *)
(***************************************************************************)
EXTENDS Naturals, Sequences, FiniteSets, SequencesExt, FiniteSetsExt

End == "$"

NProds(G)     == Len(G.prods)
ProdIdx(G)    == 1..Len(G.prods)
ProdsOf(G, A) == {i \in ProdIdx(G) : G.prods[i].lhs = A}
Rhs(G, i)     == G.prods[i].rhs
Lhs(G, i)     == G.prods[i].lhs
IsNT(G, s)    == s \in G.nts
RhsSyms(G)    == UNION {Range(Rhs(G, i)) : i \in ProdIdx(G)}
Terms(G)      == RhsSyms(G) \ G.nts

(***************************************************************************)
(* Bounded language: for every non-terminal the set of terminal strings of *)
(* length <= n it derives; least fixpoint by Kleene iteration from {}.     *)
(***************************************************************************)
Trunc(s, n) == IF Len(s) <= n THEN s ELSE SubSeq(s, 1, n)

CatLe(X, Y, n) == {z \in {x \o y : x \in X, y \in Y} : Len(z) <= n}

RECURSIVE RhsLang(_, _, _, _)
RhsLang(G, L, rhs, n) ==
  IF rhs = <<>> THEN {<<>>}
  ELSE LET h == Head(rhs)
           first == IF IsNT(G, h) THEN L[h] ELSE IF n >= 1 THEN {<<h>>} ELSE {}
       IN IF first = {} THEN {} ELSE CatLe(first, RhsLang(G, L, Tail(rhs), n), n)

LangStep(G, L, n) ==
  [A \in G.nts |-> UNION {RhsLang(G, L, Rhs(G, i), n) : i \in ProdsOf(G, A)}]

RECURSIVE LangLfp(_, _, _)
LangLfp(G, L, n) == LET L2 == LangStep(G, L, n) IN IF L2 = L THEN L ELSE LangLfp(G, L2, n)

LangAll(G, n) == LangLfp(G, [A \in G.nts |-> {}], n)
Lang(G, n)    == LangAll(G, n)[G.start]

(***************************************************************************)
(* Nullable, productive, reachable, left-recursive non-terminals           *)
(***************************************************************************)
RECURSIVE NullLfp(_, _)
NullLfp(G, N) ==
  LET N2 == {A \in G.nts : \E i \in ProdsOf(G, A) : Range(Rhs(G, i)) \subseteq N}
  IN IF N2 = N THEN N ELSE NullLfp(G, N2)
Nullable(G) == NullLfp(G, {})

RECURSIVE ProdLfp(_, _)
ProdLfp(G, P) ==
  LET P2 == {A \in G.nts : \E i \in ProdsOf(G, A) :
                              \A s \in Range(Rhs(G, i)) : ~IsNT(G, s) \/ s \in P}
  IN IF P2 = P THEN P ELSE ProdLfp(G, P2)
Productive(G)    == ProdLfp(G, {})
NonProductive(G) == G.nts \ Productive(G)

RECURSIVE ReachLfp(_, _)
ReachLfp(G, R) ==
  LET R2 == R \cup UNION {Range(Rhs(G, i)) \cap G.nts : i \in {j \in ProdIdx(G) : Lhs(G, j) \in R}}
  IN IF R2 = R THEN R ELSE ReachLfp(G, R2)
Reachable(G)   == ReachLfp(G, {G.start})
Unreachable(G) == G.nts \ Reachable(G)

\* A "can start with" B : A -> alpha B beta with alpha =>* epsilon
StartsWith(G, A) ==
  LET N == Nullable(G)
  IN UNION {{Rhs(G, i)[j] : j \in {j \in 1..Len(Rhs(G, i)) :
                                     /\ IsNT(G, Rhs(G, i)[j])
                                     /\ \A m \in 1..(j - 1) : Rhs(G, i)[m] \in N}}
             : i \in ProdsOf(G, A)}

RECURSIVE StartClosure(_, _)
StartClosure(G, R) ==   \* R : [nts -> SUBSET nts]
  LET R2 == [A \in G.nts |-> R[A] \cup UNION {R[B] : B \in R[A]}]
  IN IF R2 = R THEN R ELSE StartClosure(G, R2)
LeftRecursive(G) ==
  LET C == StartClosure(G, [A \in G.nts |-> StartsWith(G, A)])
  IN {A \in G.nts : A \in C[A]}

WellFormed(G)   == NonProductive(G) = {} /\ Unreachable(G) = {}
WellFormedLL(G) == WellFormed(G) /\ LeftRecursive(G) = {}

(***************************************************************************)
(* Cross-characterisations used as model-checking sanity invariants: they  *)
(* tie the fixpoint definitions to the bounded language through the length *)
(* of a shortest derivable string (Bellman-Ford over the productions).     *)
(***************************************************************************)
Inf == 1000000
RECURSIVE SumLen(_, _, _)
SumLen(G, M, rhs) ==
  IF rhs = <<>> THEN 0
  ELSE LET h == IF IsNT(G, Head(rhs)) THEN M[Head(rhs)] ELSE 1
           t == SumLen(G, M, Tail(rhs))
       IN IF h >= Inf \/ t >= Inf THEN Inf ELSE h + t
RECURSIVE MinLenLfp(_, _)
MinLenLfp(G, M) ==
  LET M2 == [A \in G.nts |-> Min({M[A]} \cup {SumLen(G, M, Rhs(G, i)) : i \in ProdsOf(G, A)})]
  IN IF M2 = M THEN M ELSE MinLenLfp(G, M2)
MinLen(G) == MinLenLfp(G, [A \in G.nts |-> Inf])

DefsAgreeWithLang(G, n) ==
  LET M == MinLen(G)
      L == LangAll(G, n)
  IN /\ Productive(G) = {A \in G.nts : M[A] < Inf}
     /\ Nullable(G) = {A \in G.nts : M[A] = 0}
     /\ \A A \in G.nts : IF M[A] <= n THEN L[A] # {} /\ Min({Len(w) : w \in L[A]}) = M[A]
                                       ELSE L[A] = {}
=============================================================================
