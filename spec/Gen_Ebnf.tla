------------------------------ MODULE Gen_Ebnf ------------------------------
(* The universe of small EBNF grammars for C09 (and C01 on grammars "as the user wrote them"):   *)
(* right-hand sides are grown token by token; a production may be closed when it is balanced.    *)
EXTENDS Ebnf, TLC, Json
CONSTANTS NTs, Ts, MaxTok, MaxDepth, MaxProds, LangN, EmitLang,
          MaxPieces, PieceMode   \* FALSE: right-hand sides grow token by token; TRUE: by whole pieces (groups, optionals,
                      \* repetitions with two alternatives ...) so that several of them fit into one production
VARIABLES prods, cur, np, done  \* finished productions; token sequence of the production being written; pieces added
vars == <<prods, cur, np, done>>
NTSeq == SetToSeq(NTs)          \* the i-th production defines the i-th non-terminal of some fixed order, start = "S" first
Order == <<"S">> \o SelectSeq(NTSeq, LAMBDA x : x # "S")
Depth(t) == Cardinality({i \in 1..Len(t) : t[i] \in Open}) - Cardinality({i \in 1..Len(t) : t[i] \in Close})
Init == prods = <<>> /\ cur = <<>> /\ np = 0 /\ done = FALSE
\* a token sequence that can still be completed to a balanced one, nesting at most MaxDepth
RECURSIVE PrefixOk(_, _, _)
PrefixOk(t, i, st) == IF i > Len(t) THEN TRUE
                      ELSE IF t[i] \in Open THEN Len(st) < MaxDepth /\ PrefixOk(t, i + 1, Append(st, t[i]))
                      ELSE IF t[i] \in Close THEN st # <<>> /\ Match(st[Len(st)]) = t[i] /\ PrefixOk(t, i + 1, SubSeq(st, 1, Len(st) - 1))
                      ELSE PrefixOk(t, i + 1, st)
Pieces == {<<"(", "a", "|", "b", ")">>, <<"[", "a", "|", "b", "]">>, <<"{", "a", "|", "b", "}">>,
           <<"(", "a", ")">>, <<"{", "b", "}">>, <<"a">>, <<"|">>, <<"(">>, <<")">>, <<"{">>, <<"}">>}
AddTok == /\ ~done /\ Len(prods) < MaxProds
          /\ IF PieceMode
             THEN np < MaxPieces /\ \E p \in Pieces : Len(cur) + Len(p) <= MaxTok /\ PrefixOk(cur \o p, 1, <<>>) /\ cur' = cur \o p
             ELSE Len(cur) < MaxTok /\ \E t \in NTs \cup Ts \cup Meta : PrefixOk(Append(cur, t), 1, <<>>) /\ cur' = Append(cur, t)
          /\ np' = np + 1
          /\ UNCHANGED <<prods, done>>
ClosProd == /\ ~done /\ Len(prods) < MaxProds /\ Balanced(cur, 1, <<>>)
            /\ prods' = Append(prods, [lhs |-> Order[Len(prods) + 1], rhs |-> cur]) /\ cur' = <<>> /\ np' = 0
            /\ UNCHANGED done
Fin == ~done /\ prods # <<>> /\ cur = <<>> /\ done' = TRUE /\ UNCHANGED <<prods, cur, np>>
Next == AddTok \/ ClosProd \/ Fin
Spec == Init /\ [][Next]_vars

E == [start |-> "S", nts |-> {prods[i].lhs : i \in 1..Len(prods)}, prods |-> prods]
\* only grammars whose used non-terminals are all defined
Closed == \A i \in 1..Len(prods) : \A j \in 1..Len(prods[i].rhs) : prods[i].rhs[j] \in NTs => prods[i].rhs[j] \in E.nts
HasMeta == \E i \in 1..Len(prods) : \E j \in 1..Len(prods[i].rhs) : prods[i].rhs[j] \in Meta
Vec == IF EmitLang THEN [e |-> [start |-> "S", nts |-> E.nts, prods |-> prods], n |-> LangN, lang |-> LangE(E, LangN)]
       ELSE [e |-> [start |-> "S", nts |-> E.nts, prods |-> prods]]
Emit == (done /\ Closed /\ HasMeta) => PrintT(<<"VEC", ToJson(Vec)>>)
=============================================================================
