------------------------------ MODULE Gen_Ebnf ------------------------------
(* The universe of small EBNF grammars for C09 (and C01 on grammars "as the user wrote them"):   *)
(* right-hand sides are grown token by token; a production may be closed when it is balanced.    *)
EXTENDS Ebnf, TLC, Json
CONSTANTS NTs, Ts, MaxTok, MaxDepth, MaxProds, LangN, EmitLang
VARIABLES prods, cur, done      \* finished productions; token sequence of the production being written
vars == <<prods, cur, done>>
NTSeq == SetToSeq(NTs)          \* the i-th production defines the i-th non-terminal of some fixed order, start = "S" first
Order == <<"S">> \o SelectSeq(NTSeq, LAMBDA x : x # "S")
Depth(t) == Cardinality({i \in 1..Len(t) : t[i] \in Open}) - Cardinality({i \in 1..Len(t) : t[i] \in Close})
Init == prods = <<>> /\ cur = <<>> /\ done = FALSE
\* the brackets that are open at the end of t (t is always a prefix of a balanced sequence)
RECURSIVE OpenStack(_, _, _)
OpenStack(t, i, st) == IF i > Len(t) THEN st
                       ELSE IF t[i] \in Open THEN OpenStack(t, i + 1, Append(st, t[i]))
                       ELSE IF t[i] \in Close THEN OpenStack(t, i + 1, SubSeq(st, 1, Len(st) - 1))
                       ELSE OpenStack(t, i + 1, st)
AddTok == /\ ~done /\ Len(cur) < MaxTok /\ Len(prods) < MaxProds
          /\ LET st == OpenStack(cur, 1, <<>>) IN
             \E t \in NTs \cup Ts \cup Meta :
               /\ (t \in Open => Len(st) < MaxDepth)
               /\ (t \in Close => (st # <<>> /\ Match(st[Len(st)]) = t))
               /\ cur' = Append(cur, t)
          /\ UNCHANGED <<prods, done>>
ClosProd == /\ ~done /\ Len(prods) < MaxProds /\ Balanced(cur, 1, <<>>)
            /\ prods' = Append(prods, [lhs |-> Order[Len(prods) + 1], rhs |-> cur]) /\ cur' = <<>>
            /\ UNCHANGED done
Fin == ~done /\ prods # <<>> /\ cur = <<>> /\ done' = TRUE /\ UNCHANGED <<prods, cur>>
Next == AddTok \/ ClosProd \/ Fin
Spec == Init /\ [][Next]_vars

E == [start |-> "S", nts |-> {prods[i].lhs : i \in 1..Len(prods)}, prods |-> prods]
\* only grammars whose used non-terminals are all defined
Closed == \A i \in 1..Len(prods) : \A j \in 1..Len(prods[i].rhs) : prods[i].rhs[j] \in NTs => prods[i].rhs[j] \in E.nts
HasMeta == \E i \in 1..Len(prods) : \E j \in 1..Len(prods[i].rhs) : prods[i].rhs[j] \in Meta
Vec == IF EmitLang THEN [e |-> [start |-> "S", nts |-> E.nts, prods |-> prods], n |-> LangN, lang |-> LangE(E, LangN)]
       ELSE [e |-> [start |-> "S", nts |-> E.nts, prods |-> prods]]
Emit == (done /\ Closed /\ HasMeta) => PrintT(<<"VEC", ToJson(Vec)>>)
=============================================================================
