------------------------------- MODULE LsText -------------------------------
(***************************************************************************)
(* C27 / C28: text transformations offered by the language server.         *)
(*                                                                         *)
(* A grammar text is abstracted to its model (the untransformed grammar    *)
(* description parol itself reads from it; harness `model2`):              *)
(*   start, hdr, nt_types {<<nt, type>>}, scanners <<[name, a, skip,       *)
(*   trans {<<primary nt, kind, target>>}]>>, prods <<[lhs, rhs <<tok>>]>> *)
(*   tok = [k, s, a, st]: k = "nt" non-terminal s; k = "t" terminal s in    *)
(*   scanner states st; brackets and "|" are tokens of their own.          *)
(* plus the sequence of its comments (ca/cb; compared as the concatenation *)
(* cfa/cfb of the comment texts, so that two block comments the formatter  *)
(* puts next to each other - which parol's scanner reads as one, see C15 - *)
(* are not counted as a loss).                                              *)
(*                                                                         *)
(*   Format      : model' = model, comments' = comments, and formatting    *)
(*                 the result again returns the same text.                 *)
(*   RenameNT    : model' = the model with non-terminal `old` replaced by  *)
(*                 `new` at every place a non-terminal is named; comments  *)
(*                 unchanged; the text is the original with exactly the    *)
(*                 occurrences of that symbol replaced (E.textok).         *)
(*   RenameState : same for a scanner state.                               *)
(* Each `lsx` event of the trace is one such step taken by the real server *)
(* (edits applied by the driver); the trace specification accepts the step *)
(* iff it is one of the three actions.                                     *)
(***************************************************************************)
EXTENDS Naturals, Sequences, FiniteSets, TLC, Json, IOUtils
Rec == ndJsonDeserialize(IOEnv.TRACE)
VARIABLE l
E == Rec[l]

Range(s) == {s[i] : i \in DOMAIN s}
Map(s, F(_)) == [i \in DOMAIN s |-> F(s[i])]

\* order-insensitive view of the parts parol keeps in maps sorted by name
Canon(m) == [start |-> m.start, hdr |-> m.hdr, nt_types |-> Range(m.nt_types),
             scanners |-> [i \in DOMAIN m.scanners |-> [name |-> m.scanners[i].name, a |-> m.scanners[i].a,
                                                         skip |-> m.scanners[i].skip, trans |-> Range(m.scanners[i].trans)]],
             prods |-> m.prods]

RenameNT(m, old, new) ==
  LET R(x) == IF x = old THEN new ELSE x
      Tok(t) == IF t.k = "nt" THEN [t EXCEPT !.s = R(@)] ELSE t
  IN [start |-> R(m.start), hdr |-> m.hdr,
      nt_types |-> [i \in DOMAIN m.nt_types |-> <<R(m.nt_types[i][1]), m.nt_types[i][2]>>],
      scanners |-> [i \in DOMAIN m.scanners |->
                      [m.scanners[i] EXCEPT !.skip = Map(@, R),
                                            !.trans = [j \in DOMAIN @ |-> <<R(@[j][1]), @[j][2], @[j][3]>>]]],
      prods |-> [i \in DOMAIN m.prods |-> [lhs |-> R(m.prods[i].lhs), rhs |-> Map(m.prods[i].rhs, Tok)]]]

RenameState(m, old, new) ==
  LET R(x) == IF x = old THEN new ELSE x
      Tok(t) == [t EXCEPT !.st = Map(@, R)]
  IN [start |-> m.start, hdr |-> m.hdr, nt_types |-> m.nt_types,
      scanners |-> [i \in DOMAIN m.scanners |->
                      [m.scanners[i] EXCEPT !.name = R(@),
                                            !.trans = [j \in DOMAIN @ |-> <<@[j][1], @[j][2], IF @[j][2] = "pop" THEN @[j][3] ELSE R(@[j][3])>>]]],
      prods |-> [i \in DOMAIN m.prods |-> [lhs |-> m.prods[i].lhs, rhs |-> Map(m.prods[i].rhs, Tok)]]]

Names(m) == {m.prods[i].lhs : i \in DOMAIN m.prods} \cup {m.scanners[i].name : i \in DOMAIN m.scanners}

Why ==
  IF ~E.accepted THEN {"result text is not a valid grammar"}
  ELSE LET exp == CASE E.op = "format" -> E.a
                    [] E.op = "renameNT" -> RenameNT(E.a, E.old, E.new)
                    [] E.op = "renameState" -> RenameState(E.a, E.old, E.new)
           ca == Canon(exp)  cb == Canon(E.b)
       IN {f \in {"start", "hdr", "nt_types", "scanners", "prods"} : ca[f] # cb[f]}
          \cup (IF E.cfa # E.cfb THEN {"comments"} ELSE {})
          \cup (IF E.op = "format" /\ ~E.idem THEN {"not idempotent"} ELSE {})
          \cup (IF E.op # "format" /\ ~E.textok THEN {"text changed elsewhere"} ELSE {})
          \cup (IF E.op # "format" /\ E.new \in Names(E.a) THEN {"driver: name not fresh"} ELSE {})

Check == /\ l <= Len(Rec) /\ E.ev = "lsx" /\ l' = l + 1
         /\ IF Why = {} THEN TRUE
            ELSE PrintT(<<"REJECT", l, ToJson([why |-> Why, op |-> E.op, id |-> E.id, info |-> E.info])>>)
Init == l = 1
TraceSpec == Init /\ [][Check]_l
TraceAccepted ==
  LET d == TLCGet("stats").diameter - 1 IN
  IF d = Len(Rec) THEN TRUE
  ELSE PrintT(<<"UNMATCHED", d + 1, ToJson(Rec[d + 1])>>) /\ FALSE
=============================================================================
