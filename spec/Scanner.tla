------------------------------- MODULE Scanner -------------------------------
(***************************************************************************)
(* The documented tokenisation rules of a generated scanner (C13) with the *)
(* automatic tokens (new line, white space, comments: C15), unmatched      *)
(* input (C16) and positions (C14), as an executable definition:           *)
(*   repeatedly take the LONGEST match among the terminals of the current  *)
(*   scanner state, on equal length the one declared FIRST, a terminal     *)
(*   with a positive/negative lookahead only if the text behind the match  *)
(*   does / does not start with the lookahead text; switch states on       *)
(*   enter/push/pop (pop on an empty stack keeps the state); a character   *)
(*   nothing matches is the error token, or - in a state that allows       *)
(*   unmatched input - an ignored gap.                                     *)
(* The module is also the generator: texts over the alphabet of the        *)
(* configuration are enumerated and emitted with their token sequence.     *)
(***************************************************************************)
EXTENDS Naturals, Sequences, FiniteSets, SequencesExt, FiniteSetsExt, TLC, Json

CONSTANTS CfgId, MaxText

NL == "\n"
CR == "\r"

\* ---- patterns.  A position is the number of characters already consumed (0-based offset).
At(text, i) == text[i + 1]
StartsWith(text, i, s) == i + Len(s) <= Len(text) /\ SubSeq(text, i + 1, i + Len(s)) = s
\* first offset >= i at which s occurs, or -1
RECURSIVE Find(_, _, _)
Find(text, i, s) == IF i + Len(s) > Len(text) THEN -1
                    ELSE IF StartsWith(text, i, s) THEN i ELSE Find(text, i + 1, s)
RECURSIVE RunOf(_, _, _)
\* end of the maximal run of characters from set cs starting at i
RunOf(text, i, cs) == IF i < Len(text) /\ At(text, i) \in cs THEN RunOf(text, i + 1, cs) ELSE i
RECURSIVE RunNot(_, _, _)
RunNot(text, i, cs) == IF i < Len(text) /\ At(text, i) \notin cs THEN RunNot(text, i + 1, cs) ELSE i

\* set of end offsets of the matches of pattern p at offset i (always > i)
Ends(p, text, i) ==
  CASE p.k = "lit"  -> IF StartsWith(text, i, p.s) THEN {i + Len(p.s)} ELSE {}
    [] p.k = "plus" -> LET e == RunOf(text, i, p.cs) IN (i + 1)..e
    [] p.k = "nl"   -> IF StartsWith(text, i, <<CR, NL>>) THEN {i + 1, i + 2}
                       ELSE IF i < Len(text) /\ At(text, i) \in {CR, NL} THEN {i + 1} ELSE {}
    [] p.k = "ws"   -> LET e == RunOf(text, i, {" ", "\t"}) IN (i + 1)..e
    [] p.k = "lc"   -> \* start, anything but a line feed, then an optional line break
                       IF ~StartsWith(text, i, p.s) THEN {}
                       ELSE LET b == i + Len(p.s)
                                e == RunNot(text, b, {NL})
                            IN (b..e) \cup (IF e < Len(text) THEN {e + 1} ELSE {})
    [] p.k = "bc"   -> \* REQUIRED: the first occurrence of the end delimiter behind the start delimiter
                       IF ~StartsWith(text, i, p.s) THEN {}
                       ELSE LET f == Find(text, i + Len(p.s), p.e)
                            IN IF f < 0 THEN {} ELSE {f + Len(p.e)}
    [] p.k = "any"  -> IF i < Len(text) /\ At(text, i) # NL THEN {i + 1} ELSE {}
    [] p.k = "anynl" -> IF i < Len(text) THEN {i + 1} ELSE {}

LaOk(t, text, e) == CASE t.la = "none" -> TRUE
                      [] t.la = "pos" -> StartsWith(text, e, t.las)
                      [] t.la = "neg" -> ~StartsWith(text, e, t.las)

\* ---- a configuration:
\*  terms : sequence of [pat, la, las, states]   user terminals in declaration order (type = 4 + index)
\*  modes : sequence of [nl, ws, lc, bc, unmatched, skip, trans]
\*          lc: sequence of start delimiters; bc: sequence of <<start, end>>;
\*          trans: set of [ty, act, to]; skip: set of terminal types skipped in this state
ErrTy(cfg) == 5 + Len(cfg.terms)
GapTy == 65534

\* the terminals of a mode in priority order: [pat, ty, la, las]
ModeToks(cfg, m) ==
  LET md == cfg.modes[m]
      auto == (IF md.nl THEN <<[pat |-> [k |-> "nl"], ty |-> 1, la |-> "none", las |-> <<>>]>> ELSE <<>>)
           \o (IF md.ws THEN <<[pat |-> [k |-> "ws"], ty |-> 2, la |-> "none", las |-> <<>>]>> ELSE <<>>)
      \* several comment delimiters form ONE terminal (alternatives): longest alternative wins
      user == SelectSeq([i \in 1..Len(cfg.terms) |->
                          [pat |-> cfg.terms[i].pat, ty |-> 4 + i, la |-> cfg.terms[i].la,
                           las |-> cfg.terms[i].las, st |-> cfg.terms[i].states]],
                        LAMBDA t : m \in t.st)
      err == IF md.unmatched THEN <<>>
             ELSE <<[pat |-> [k |-> cfg.errpat], ty |-> ErrTy(cfg), la |-> "none", las |-> <<>>]>>
  IN <<auto, md.lc, md.bc, user, err>>

\* candidate (end, rank, type): rank = priority order (lower wins on equal length)
Cands(cfg, m, text, i) ==
  LET mt == ModeToks(cfg, m)
      auto == mt[1]  lcs == mt[2]  bcs == mt[3]  user == mt[4]  err == mt[5]
      ca == UNION {{<<e, j, auto[j].ty>> : e \in Ends(auto[j].pat, text, i)} : j \in 1..Len(auto)}
      cl == UNION {{<<e, 10, 3>> : e \in Ends([k |-> "lc", s |-> lcs[j]], text, i)} : j \in 1..Len(lcs)}
      cb == UNION {{<<e, 11, 4>> : e \in Ends([k |-> "bc", s |-> bcs[j][1], e |-> bcs[j][2]], text, i)} : j \in 1..Len(bcs)}
      cu == UNION {{<<e, 20 + j, user[j].ty>> : e \in {x \in Ends(user[j].pat, text, i) : LaOk(user[j], text, x)}}
                   : j \in 1..Len(user)}
      ce == UNION {{<<e, 1000, err[j].ty>> : e \in Ends(err[j].pat, text, i)} : j \in 1..Len(err)}
  IN ca \cup cl \cup cb \cup cu \cup ce

Best(C) == CHOOSE c \in C : \A d \in C : c[1] > d[1] \/ (c[1] = d[1] /\ c[2] <= d[2])

\* ---- positions: 1-based line / column of the character at offset i (or of the end of the text)
Line(text, i) == 1 + Cardinality({j \in 1..i : text[j] = NL})
Col(text, i)  == LET nls == {j \in 1..i : text[j] = NL} IN IF nls = {} THEN i + 1 ELSE i - Max(nls) + 1

Tok(cfg, m, text, s, e, ty) ==
  [ty |-> ty, s |-> s, e |-> e, sl |-> Line(text, s), sc |-> Col(text, s), el |-> Line(text, e), ec |-> Col(text, e),
   skip |-> ty \in {1, 2, 3, 4, GapTy} \/ ty \in cfg.modes[m].skip]
Gap(text, s, e) == [ty |-> GapTy, s |-> s, e |-> e, sl |-> Line(text, s), sc |-> Col(text, s),
                    el |-> Line(text, e), ec |-> Col(text, e), skip |-> TRUE]

Switch(cfg, m, stack, ty) ==
  LET tr == {t \in cfg.modes[m].trans : t.ty = ty} IN
  IF tr = {} THEN <<m, stack>>
  ELSE LET t == CHOOSE x \in tr : TRUE IN
       CASE t.act = "enter" -> <<t.to, stack>>
         [] t.act = "push"  -> <<t.to, Append(stack, m)>>
         [] t.act = "pop"   -> IF stack = <<>> THEN <<m, stack>>
                               ELSE <<stack[Len(stack)], SubSeq(stack, 1, Len(stack) - 1)>>

RECURSIVE Scan(_, _, _, _, _, _, _)
\* gs = start of a pending gap (-1 none)
Scan(cfg, text, i, m, stack, gs, out) ==
  IF i >= Len(text) THEN (IF gs >= 0 THEN Append(out, Gap(text, gs, i)) ELSE out)
  ELSE LET C == Cands(cfg, m, text, i) IN
       IF C = {} THEN Scan(cfg, text, i + 1, m, stack, IF gs >= 0 THEN gs ELSE i, out)
       ELSE LET b == Best(C)
                sw == Switch(cfg, m, stack, b[3])
                out1 == IF gs >= 0 THEN Append(out, Gap(text, gs, i)) ELSE out
            IN Scan(cfg, text, b[1], sw[1], sw[2], -1, Append(out1, Tok(cfg, m, text, i, b[1], b[3])))

Tokenize(cfg, text) == Scan(cfg, text, 0, 1, <<>>, -1, <<>>)

\* ---- the catalogue of configurations
Ch(S)   == {<<c>> : c \in S}          \* an alphabet of single characters (alphabets are sets of text pieces)
Lit(s)  == [k |-> "lit", s |-> s]
Plus(c) == [k |-> "plus", cs |-> c]
T(p, st) == [pat |-> p, la |-> "none", las |-> <<>>, states |-> st]
TL(p, la, las, st) == [pat |-> p, la |-> la, las |-> las, states |-> st]
Mode(nl, ws, lc, bc, um, skip, tr) == [nl |-> nl, ws |-> ws, lc |-> lc, bc |-> bc, unmatched |-> um, skip |-> skip, trans |-> tr]
Plain == Mode(TRUE, TRUE, <<>>, <<>>, FALSE, {}, {})

Cfgs ==
  [basic |-> [alphabet |-> Ch({"a", "b", " ", "x"}), errpat |-> "any",
              terms |-> <<T(Lit(<<"a">>), {1}), T(Lit(<<"a", "b">>), {1}), T(Lit(<<"b">>), {1})>>,
              modes |-> <<Plain>>],
   plus1 |-> [alphabet |-> Ch({"a", "b", " "}), errpat |-> "any",
              terms |-> <<T(Plus({"a"}), {1}), T(Lit(<<"a", "a">>), {1}), T(Lit(<<"b">>), {1})>>,
              modes |-> <<Plain>>],
   plus2 |-> [alphabet |-> Ch({"a", "b", " "}), errpat |-> "any",
              terms |-> <<T(Lit(<<"a", "a">>), {1}), T(Plus({"a"}), {1}), T(Plus({"a", "b"}), {1})>>,
              modes |-> <<Plain>>],
   look  |-> [alphabet |-> Ch({"a", "b", "c", " "}), errpat |-> "any",
              terms |-> <<TL(Lit(<<"a">>), "pos", <<"b">>, {1}), TL(Lit(<<"a">>), "neg", <<"c">>, {1}),
                          T(Lit(<<"b">>), {1}), T(Lit(<<"a", "c">>), {1})>>,
              modes |-> <<Plain>>],
   modes |-> [alphabet |-> Ch({"a", "b", "q", " "}), errpat |-> "any",
              terms |-> <<T(Lit(<<"a">>), {1, 2}), T(Lit(<<"b">>), {2}), T(Lit(<<"q">>), {1, 2}), T(Lit(<<"b", "b">>), {1})>>,
              modes |-> <<Mode(TRUE, TRUE, <<>>, <<>>, FALSE, {}, {[ty |-> 7, act |-> "enter", to |-> 2]}),
                          Mode(FALSE, FALSE, <<>>, <<>>, FALSE, {}, {[ty |-> 7, act |-> "enter", to |-> 1]})>>],
   stack |-> [alphabet |-> Ch({"a", "p", "r", " "}), errpat |-> "any",
              terms |-> <<T(Lit(<<"a">>), {1, 2}), T(Lit(<<"p">>), {1, 2}), T(Lit(<<"r">>), {1, 2}), T(Lit(<<"a", "a">>), {2})>>,
              modes |-> <<Mode(TRUE, TRUE, <<>>, <<>>, FALSE, {}, {[ty |-> 6, act |-> "push", to |-> 2], [ty |-> 7, act |-> "pop", to |-> 0]}),
                          Mode(TRUE, TRUE, <<>>, <<>>, FALSE, {5}, {[ty |-> 6, act |-> "push", to |-> 1], [ty |-> 7, act |-> "pop", to |-> 0]})>>],
   \* a token that is skipped in state 2 and switches back to state 1 where it is an ordinary token
   skipsw |-> [alphabet |-> Ch({"a", "o", "c", " "}), errpat |-> "any",
              terms |-> <<T(Lit(<<"a">>), {1, 2}), T(Lit(<<"o">>), {1, 2}), T(Lit(<<"c">>), {1, 2})>>,
              modes |-> <<Mode(TRUE, TRUE, <<>>, <<>>, FALSE, {}, {[ty |-> 6, act |-> "push", to |-> 2]}),
                          Mode(TRUE, TRUE, <<>>, <<>>, FALSE, {7}, {[ty |-> 7, act |-> "pop", to |-> 0]})>>],
   cmt   |-> [alphabet |-> Ch({"/", "*", "a", NL, " "}), errpat |-> "any",
              terms |-> <<T(Lit(<<"a">>), {1}), T(Lit(<<"/">>), {1}), T(Lit(<<"*">>), {1})>>,
              modes |-> <<Mode(TRUE, TRUE, <<<<"/", "/">>>>, << <<<<"/", "*">>, <<"*", "/">>>> >>, FALSE, {}, {})>>],
   \* C-style comments in a grammar that has no terminals "/" and "*" (as in most real grammars)
   cmt0  |-> [alphabet |-> {<<"/", "*">>, <<"*", "/">>, <<"/">>, <<"*">>, <<"a">>}, errpat |-> "any",
              terms |-> <<T(Lit(<<"a">>), {1})>>,
              modes |-> <<Mode(TRUE, TRUE, <<<<"/", "/">>>>, << <<<<"/", "*">>, <<"*", "/">>>> >>, FALSE, {}, {})>>],
   xml   |-> [alphabet |-> {<<"<", "!", "-", "-">>, <<"-">>, <<">">>, <<"a">>}, errpat |-> "any",
              terms |-> <<T(Lit(<<"a">>), {1}), T(Lit(<<"-">>), {1}), T(Lit(<<">">>), {1})>>,
              modes |-> <<Mode(TRUE, TRUE, <<>>, << <<<<"<", "!", "-", "-">>, <<"-", "-", ">">>>> >>, FALSE, {}, {})>>],
   pas   |-> [alphabet |-> {<<"(", "*">>, <<"*">>, <<")">>, <<"a">>, <<"(">>}, errpat |-> "any",
              terms |-> <<T(Lit(<<"a">>), {1}), T(Lit(<<"(">>), {1}), T(Lit(<<")">>), {1}), T(Lit(<<"*">>), {1})>>,
              modes |-> <<Mode(TRUE, TRUE, <<>>, << <<<<"(", "*">>, <<"*", ")">>>> >>, FALSE, {}, {})>>],
   dash  |-> [alphabet |-> {<<"-", "-", "-">>, <<"-">>, <<"a">>, <<NL>>}, errpat |-> "any",
              terms |-> <<T(Lit(<<"a">>), {1})>>,
              modes |-> <<Mode(TRUE, TRUE, <<<<"-", "-">>>>, << <<<<"-", "-", "-">>, <<"-", "-">>>> >>, FALSE, {}, {})>>],
   nonl  |-> [alphabet |-> Ch({"a", " ", NL, CR, "x"}), errpat |-> "anynl",
              terms |-> <<T(Lit(<<"a">>), {1})>>,
              modes |-> <<Mode(FALSE, TRUE, <<>>, <<>>, FALSE, {}, {})>>],
   nows  |-> [alphabet |-> Ch({"a", " ", NL, "x"}), errpat |-> "anynl",
              terms |-> <<T(Lit(<<"a">>), {1})>>,
              modes |-> <<Mode(TRUE, FALSE, <<>>, <<>>, FALSE, {}, {})>>],
   allow |-> [alphabet |-> Ch({"a", " ", NL, "x", "<e>"}), errpat |-> "anynl",
              terms |-> <<T(Lit(<<"a">>), {1}), T(Lit(<<"b">>), {1})>>,
              modes |-> <<Mode(TRUE, TRUE, <<>>, <<>>, TRUE, {}, {})>>],
   allow2 |-> [alphabet |-> Ch({"a", " ", NL, "x"}), errpat |-> "anynl",
              terms |-> <<T(Lit(<<"a">>), {1})>>,
              modes |-> <<Mode(FALSE, FALSE, <<>>, <<>>, TRUE, {}, {})>>],
   \* %allow_unmatched in one of two scanner states only ('o' enters state 2, 'c' returns)
   allowst |-> [alphabet |-> Ch({"a", "o", "c", "x", " "}), errpat |-> "any",
              terms |-> <<T(Lit(<<"a">>), {1, 2}), T(Lit(<<"o">>), {1}), T(Lit(<<"c">>), {2})>>,
              modes |-> <<Mode(TRUE, TRUE, <<>>, <<>>, FALSE, {}, {[ty |-> 6, act |-> "enter", to |-> 2]}),
                          Mode(TRUE, TRUE, <<>>, <<>>, TRUE, {}, {[ty |-> 7, act |-> "enter", to |-> 1]})>>],
   allowst2 |-> [alphabet |-> Ch({"a", "o", "c", "x", " "}), errpat |-> "any",
              terms |-> <<T(Lit(<<"a">>), {1, 2}), T(Lit(<<"o">>), {1}), T(Lit(<<"c">>), {2})>>,
              modes |-> <<Mode(TRUE, TRUE, <<>>, <<>>, TRUE, {}, {[ty |-> 6, act |-> "enter", to |-> 2]}),
                          Mode(TRUE, TRUE, <<>>, <<>>, FALSE, {}, {[ty |-> 7, act |-> "enter", to |-> 1]})>>],
   \* two line comment styles / two block comment styles in one state
   lc2   |-> [alphabet |-> {<<"/", "/">>, <<"#">>, <<"a">>, <<NL>>, <<" ">>}, errpat |-> "any",
              terms |-> <<T(Lit(<<"a">>), {1})>>,
              modes |-> <<Mode(TRUE, TRUE, <<<<"/", "/">>, <<"#">>>>, <<>>, FALSE, {}, {})>>],
   bc2   |-> [alphabet |-> {<<"(", "*">>, <<"*", ")">>, <<"{", "-">>, <<"-", "}">>, <<"a">>}, errpat |-> "any",
              terms |-> <<T(Lit(<<"a">>), {1})>>,
              modes |-> <<Mode(TRUE, TRUE, <<>>, << <<<<"(", "*">>, <<"*", ")">>>>, <<<<"{", "-">>, <<"-", "}">>>> >>, FALSE, {}, {})>>],
   utf   |-> [alphabet |-> Ch({"a", "<e>", "<u>", NL, CR}), errpat |-> "anynl",
              terms |-> <<T(Lit(<<"a">>), {1}), T(Lit(<<"<e>">>), {1})>>,
              modes |-> <<Plain>>]]

Cfg == Cfgs[CfgId]

VARIABLES text, np, done      \* np = number of pieces appended
vars == <<text, np, done>>
Init == text = <<>> /\ np = 0 /\ done = FALSE
Next == \/ ~done /\ np < MaxText /\ \E c \in Cfg.alphabet : text' = text \o c /\ np' = np + 1 /\ UNCHANGED done
        \/ ~done /\ done' = TRUE /\ UNCHANGED <<text, np>>
Spec == Init /\ [][Next]_vars

Toks == Tokenize(Cfg, text)
\* "<e>" and "<u>" stand for a two-byte and a four-byte character (the harness substitutes them)
Emit == done => PrintT(<<"VEC", ToJson(IF text = <<>> THEN [cfg |-> CfgId, text |-> text, toks |-> Toks, def |-> Cfg]
                                       ELSE [cfg |-> CfgId, text |-> text, toks |-> Toks])>>)

\* ---- model-checked properties of the definition itself
Lossless == done => LET ts == Toks IN
                    /\ (text = <<>>) = (ts = <<>>)
                    /\ ts # <<>> => ts[1].s = 0 /\ ts[Len(ts)].e = Len(text)
                    /\ \A j \in 1..(Len(ts) - 1) : ts[j].e = ts[j + 1].s
                    /\ \A j \in 1..Len(ts) : ts[j].e > ts[j].s
\* without allow-unmatched no character is dropped silently: every gap-free
NoSilentGap == done => \A j \in 1..Len(Toks) : Toks[j].ty = GapTy => \E m \in 1..Len(Cfg.modes) : Cfg.modes[m].unmatched
=============================================================================
