------------------------------- MODULE Gen_WF -------------------------------
(* C11: well-formedness sets for every grammar of the universe, emitted as test vectors, plus *)
(* model-checked agreement of the fixpoint definitions with the language-based ones.          *)
EXTENDS GrammarEnum
CONSTANT LangN      \* string length bound for the language-based cross check

Vec == [g |-> GJson(G),
        nullable |-> Nullable(G), nonproductive |-> NonProductive(G),
        unreachable |-> Unreachable(G), leftrec |-> LeftRecursive(G)]

Emit == done => PrintT(<<"VEC", ToJson(Vec)>>)

\* MC: two independent characterisations agree
DefsAgree == done => DefsAgreeWithLang(G, LangN)
=============================================================================
