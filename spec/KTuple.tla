------------------------------- MODULE KTuple -------------------------------
(***************************************************************************)
(* C32: the packed 128-bit terminal strings (parol::analysis::k_tuple::    *)
(* Terminals / TerminalString / KTuple) against plain bounded sequences.   *)
(* An abstract value is a sequence over terminal indices and the marker E  *)
(* (epsilon is exactly <<E>>); 0 is end of input and closes a string.      *)
(* Registers are driven by every operation sequence up to MaxOps; each     *)
(* step records what the abstract value looks like afterwards.             *)
(***************************************************************************)
EXTENDS Naturals, Sequences, FiniteSets, SequencesExt, TLC, Json
CONSTANTS K,        \* lookahead size used for concatenation / completeness
          Terms,    \* terminal indices used by push (0 = end of input)
          MaxOps, NRegs
MaxLen == 10        \* MAX_K
E == 9999   \* marker for epsilon (TLC cannot compare strings with numbers)
VARIABLES regs, hist, done
vars == <<regs, hist, done>>
Regs == 1..NRegs

IsEps(s)   == s = <<E>>

KLen(s, k) == IF Len(s) < k THEN Len(s) ELSE k
Complete(s, k) == ~IsEps(s) /\ (Len(s) >= k \/ (s # <<>> /\ Last(s) = 0))
Take(s, n) == SubSeq(s, 1, IF n < Len(s) THEN n ELSE Len(s))

Push(s, t) == IF Len(s) >= MaxLen THEN s
              ELSE IF s # <<>> /\ Last(s) = 0 THEN s
              ELSE Append(s, t)
KConcat(x, y, k) ==
  IF IsEps(y) \/ y = <<>> THEN x
  ELSE LET x1 == IF IsEps(x) THEN <<>> ELSE x IN
       IF Complete(x1, k) THEN x1
       ELSE LET room == k - KLen(x1, k)
                take == IF room < KLen(y, k) THEN room ELSE KLen(y, k)
            IN IF take = 0 THEN x1 ELSE Take(x1, KLen(x1, k)) \o Take(y, take)
Of(s, k) == Take(s, KLen(s, k))

Obs(s) == [den |-> s, len |-> Len(s), is_eps |-> IsEps(s), is_empty |-> s = <<>>,
           complete |-> Complete(s, K), k_len |-> KLen(s, K)]

Init == regs = [r \in Regs |-> <<>>] /\ hist = <<>> /\ done = FALSE
Step(op, r, arg, val) ==
  /\ ~done /\ Len(hist) < MaxOps
  /\ regs' = [regs EXCEPT ![r] = val]
  /\ hist' = Append(hist, [op |-> op, r |-> r, arg |-> arg, obs |-> Obs(val)])
  /\ UNCHANGED done
Next == \/ \E r \in Regs :
             \/ Step("new", r, 0, <<>>)
             \/ Step("eps", r, 0, <<E>>)
             \/ Step("end", r, 0, <<0>>)
             \/ \E t \in Terms : Step("push", r, t, Push(regs[r], t))
             \/ \E q \in Regs : Step("kconcat", r, q, KConcat(regs[r], regs[q], K))
             \/ Step("of", r, K, Of(regs[r], K))
        \/ (~done /\ hist # <<>> /\ done' = TRUE /\ UNCHANGED <<regs, hist>>)
Spec == Init /\ [][Next]_vars

\* final pairwise equality of the registers goes into the vector (Eq must hold iff same value)
Vec == [k |-> K, ops |-> hist, eq |-> [r \in Regs |-> [q \in Regs |-> regs[r] = regs[q]]]]
Emit == (done /\ Len(hist) = MaxOps) => PrintT(<<"VEC", ToJson(Vec)>>)

\* ---- algebraic laws of the abstract model (model-checked over all reachable register contents)
Laws == \A r, q \in Regs :
          LET x == regs[r]  y == regs[q] IN
          /\ KConcat(x, <<E>>, K) = x                                  \* epsilon is a right unit
          /\ Len(KConcat(x, y, K)) <= (IF Len(x) > K THEN Len(x) ELSE K)   \* truncation at k
          /\ (Complete(x, K) /\ ~IsEps(y) /\ y # <<>>) => KConcat(x, y, K) = x  \* complete strings absorb
          /\ (x # <<>> /\ Last(x) = 0) => Push(x, 1) = x               \* nothing after end of input
=============================================================================
