-------------------------------- MODULE Xform --------------------------------
(***************************************************************************)
(* Grammar transformations as input/output pairs (trace events `xform`):   *)
(*   augment    (C12)  lr_augmentation via check_and_transform_grammar     *)
(*   leftfactor (C10)  left_factor                                         *)
(*   canon      (C09)  EBNF -> BNF canonicalisation (before is an EBNF      *)
(*                     grammar, see Ebnf.tla)                              *)
(* Every pair must preserve the bounded language of the start symbol and   *)
(* satisfy the post-condition of its kind.                                 *)
(***************************************************************************)
EXTENDS Ebnf, TLC, Json, IOUtils
Rec == ndJsonDeserialize(IOEnv.TRACE)
VARIABLE l
vars == <<l>>
E == Rec[l]
Gr(j) == [start |-> j.start, nts |-> Range(j.nts), prods |-> j.prods]

StartIsolated(A) == /\ Cardinality(ProdsOf(A, A.start)) = 1
                    /\ \A i \in ProdIdx(A) : A.start \notin Range(Rhs(A, i))

\* no two non-empty alternatives of one non-terminal start with the same symbol
NoCommonFirstSymbol(A) ==
  \A i, j \in ProdIdx(A) : (i # j /\ Lhs(A, i) = Lhs(A, j) /\ Rhs(A, i) # <<>> /\ Rhs(A, j) # <<>>)
                              => Rhs(A, i)[1] # Rhs(A, j)[1]
\* the productions of the original non-terminals keep their language (a clash of a new name with an
\* existing one would merge two production sets)
NtLangsPreserved(B, A, n) == LET LB == LangAll(B, n)  LA == LangAll(A, n)
                             IN \A X \in B.nts : X \in A.nts /\ LB[X] = LA[X]

Check ==
  /\ l <= Len(Rec) /\ E.ev = "xform" /\ l' = l + 1
  \* every pair is judged on its own: a failing pair is reported and validation goes on
  /\ LET B == Gr(E.before)  A == Gr(E.after)  n == E.n
         ok == CASE E.kind = "augment" -> Lang(B, n) = Lang(A, n) /\ StartIsolated(A) /\ NtLangsPreserved(B, A, n)
                 [] E.kind = "leftfactor" -> Lang(B, n) = Lang(A, n) /\ NoCommonFirstSymbol(A) /\ NtLangsPreserved(B, A, n)
                 [] E.kind = "canon" ->
                      \* every user non-terminal keeps the language of its EBNF definition: in particular
                      \* the start symbol, and no helper name coincides with a user name
                      LET LB == LangEAll(B, n)  LA == LangAll(A, n)
                      IN /\ B.start = A.start
                         /\ \A X \in B.nts : X \in A.nts /\ LB[X] = LA[X]
                         \* the result is plain BNF
                         /\ \A i \in ProdIdx(A) : Range(Rhs(A, i)) \cap Meta = {}
                 [] OTHER -> FALSE
     IN IF ok THEN TRUE ELSE PrintT(<<"REJECT", l, ToJson(E)>>)
Init == l = 1
TraceSpec == Init /\ [][Check]_vars
TraceAccepted ==
  LET d == TLCGet("stats").diameter - 1 IN
  IF d = Len(Rec) THEN TRUE
  ELSE PrintT(<<"UNMATCHED", d + 1, ToJson(Rec[d + 1])>>) /\ FALSE
=============================================================================
