--------------------------------- MODULE LR1 ---------------------------------
(***************************************************************************)
(* Canonical LR(1) collection, merged by core to LALR(1); conflicts.        *)
(* Independent of lalry's construction (which goes through the LR(0)       *)
(* automaton and FOLLOW sets of an extended grammar).                      *)
(* The grammar is augmented here with a production 0: S' -> S.             *)
(***************************************************************************)
EXTENDS LLAnalysis

AugStart == "S'"
Aug(G) == [start |-> AugStart, nts |-> G.nts \cup {AugStart},
           prods |-> <<[lhs |-> AugStart, rhs |-> <<G.start>>]>> \o G.prods]

\* item: <<production index, dot position (0..len), lookahead terminal>>
NextSym(A, it) == LET r == Rhs(A, it[1]) IN IF it[2] < Len(r) THEN r[it[2] + 1] ELSE "."
Complete(A, it) == it[2] = Len(Rhs(A, it[1]))

\* FIRST_1 of (beta . a)
First1After(A, F1, it) ==
  LET r == Rhs(A, it[1])
      beta == SubSeq(r, it[2] + 2, Len(r))
      fs == FirstSeq(A, F1, beta \o <<it[3]>>, 1)
  IN {x[1] : x \in {y \in fs : y # <<>>}}

RECURSIVE Closure(_, _, _)
Closure(A, F1, I) ==
  LET new == UNION {{<<p, 0, b>> : p \in ProdsOf(A, NextSym(A, it)), b \in First1After(A, F1, it)}
                    : it \in {x \in I : IsNT(A, NextSym(A, x))}}
  IN IF new \subseteq I THEN I ELSE Closure(A, F1, I \cup new)

Goto(A, F1, I, X) == Closure(A, F1, {<<it[1], it[2] + 1, it[3]>> : it \in {x \in I : NextSym(A, x) = X}})

RECURSIVE Collect(_, _, _, _)
Collect(A, F1, C, work) ==
  IF work = {} THEN C
  ELSE LET succ == UNION {{Goto(A, F1, I, X) : X \in {NextSym(A, it) : it \in I} \ {"."}} : I \in work}
           new == succ \ C
       IN Collect(A, F1, C \cup new, new)

Collection(G) ==
  LET A == Aug(G)
      F1 == FirstNT(A, 1)
      I0 == Closure(A, F1, {<<1, 0, End>>})
  IN Collect(A, F1, {I0}, {I0})

Core(I) == {<<it[1], it[2]>> : it \in I}
Lalr(C) == {UNION {J \in C : Core(J) = Core(I)} : I \in C}

\* conflicts of a (merged) state
SRConflict(A, M) == \E it \in M : Complete(A, it) /\ \E jt \in M : NextSym(A, jt) = it[3]
RRConflict(A, M) == \E it, jt \in M : Complete(A, it) /\ Complete(A, jt) /\ it[1] # jt[1] /\ it[3] = jt[3]
IsLALR1(G) == LET A == Aug(G) IN \A M \in Lalr(Collection(G)) : ~SRConflict(A, M) /\ ~RRConflict(A, M)
IsLR1(G)   == LET A == Aug(G) IN \A M \in Collection(G) : ~SRConflict(A, M) /\ ~RRConflict(A, M)
=============================================================================
