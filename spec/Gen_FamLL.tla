------------------------------ MODULE Gen_FamLL ------------------------------
(* C07 (C05): FIRST_k, FOLLOW_k, lookahead sets and minimal k for the lookahead-set families of   *)
(* FamEnum.tla - same vector shape as Gen_LL.tla.                                                  *)
EXTENDS FamEnum, Solvers
CONSTANTS MaxK, LangN

Vec == LET Ans == Analyses(G, MaxK) IN
       [g |-> GJsonF, K |-> MaxK,
        first  |-> [k \in 1..MaxK |-> Ans[k].first],
        firstp |-> [k \in 1..MaxK |-> Ans[k].firstp],
        follow |-> [k \in 1..MaxK |-> Ans[k].follow],
        la     |-> [k \in 1..MaxK |-> Ans[k].la],
        mink   |-> [A \in G.nts |-> MinKOf(G, Ans, A)],
        conflicts |-> [k \in 1..MaxK |-> {A \in G.nts : ~DecidableA(G, Ans[k], A) /\ Cardinality(ProdsOf(G, A)) > 1}],
        strongll |-> [k \in 1..MaxK |-> \A A \in G.nts : MinKOf(G, Ans, A) <= k]]
Emit == (done /\ Interesting) => PrintT(<<"VEC", ToJson(Vec)>>)
\* S needs exactly the lookahead that separates the two families
MinKIsSeparation == (done /\ Interesting) =>
   LET Ans == Analyses(G, MaxK)
       X == {StrOf(j - 1) : j \in Of("X")}  Y == {StrOf(j - 1) : j \in Of("Y")}
       Sep(k) == {SubSeq(w, 1, k) : w \in X} \cap {SubSeq(w, 1, k) : w \in Y} = {}
   IN MinKOf(G, Ans, "S") = CHOOSE k \in 1..L : Sep(k) /\ \A j \in 1..(k - 1) : ~Sep(j)
=============================================================================
