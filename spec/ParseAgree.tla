----------------------------- MODULE ParseAgree -----------------------------
(* C34: parol's grammar parser and the language server's grammar parser give the same syntax      *)
(* verdict on every text.  Events `parse` carry the two verdicts ("ok", "syntax", "other ..").   *)
(* Structural part: `grammars` events carry the BNF of parol.par and parol_ls.par (extracted by   *)
(* parol itself); after inlining the non-terminals that only one of them has, the production sets *)
(* are compared (reported in the evidence; a difference alone is not a violation).                *)
EXTENDS Naturals, Sequences, FiniteSets, TLC, Json, IOUtils
Rec == ndJsonDeserialize(IOEnv.TRACE)
VARIABLE l
E == Rec[l]
IsSyntax(v) == v = "syntax"
Check == /\ l <= Len(Rec) /\ E.ev = "parse" /\ l' = l + 1
         /\ IF IsSyntax(E.parol) = IsSyntax(E.ls) /\ E.parol # "panic" /\ E.ls # "panic" THEN TRUE
            ELSE PrintT(<<"REJECT", l, ToJson([id |-> E.id, parol |-> E.parol, ls |-> E.ls, text |-> E.text])>>)
Init == l = 1
TraceSpec == Init /\ [][Check]_l
TraceAccepted ==
  LET d == TLCGet("stats").diameter - 1 IN
  IF d = Len(Rec) THEN TRUE
  ELSE PrintT(<<"UNMATCHED", d + 1, ToJson(Rec[d + 1])>>) /\ FALSE
=============================================================================
