------------------------------- MODULE Gen_LL -------------------------------
(* C05 / C06 / C07: FIRST_k, FOLLOW_k, lookahead sets, minimal k and the strong-LL(K) verdict *)
(* for every well-formed, left-recursion-free grammar of the universe.                         *)
EXTENDS GrammarEnum, Solvers
CONSTANTS MaxK, LangN

Interesting == WellFormedLL(G)

Vec == LET Ans == Analyses(G, MaxK) IN
       [g |-> GJson(G), K |-> MaxK,
        first  |-> [k \in 1..MaxK |-> Ans[k].first],
        firstp |-> [k \in 1..MaxK |-> Ans[k].firstp],
        follow |-> [k \in 1..MaxK |-> Ans[k].follow],
        la     |-> [k \in 1..MaxK |-> Ans[k].la],
        mink   |-> [A \in G.nts |-> MinKOf(G, Ans, A)],
        conflicts |-> [k \in 1..MaxK |-> {A \in G.nts : ~DecidableA(G, Ans[k], A) /\ Cardinality(ProdsOf(G, A)) > 1}],
        strongll |-> [k \in 1..MaxK |-> \A A \in G.nts : MinKOf(G, Ans, A) <= k]]

Emit == (done /\ Interesting) => PrintT(<<"VEC", ToJson(Vec)>>)

Lemmas == (done /\ Interesting) =>
            LET Ans == Analyses(G, MaxK) IN
            /\ DecidableMonotone(G, Ans)
            /\ \A k \in 1..MaxK : FirstIsTruncatedLang(G, Ans[k].first, k, LangN)

\* the way the code computes the sets (seeded Jacobi / Gauss-Seidel chains) reaches the least
\* fixpoints for every grammar the LL pipeline accepts
SolverLemmas == (done /\ Interesting) => JacobiReachesLfp(G, MaxK) /\ GSReachesLfp(G, MaxK)
=============================================================================
