------------------------------- MODULE Gen_Fam -------------------------------
(* C01 / C08: the lookahead-set families of FamEnum.tla with their (finite) language. *)
EXTENDS FamEnum
CONSTANTS LangN
Vec == [g |-> [start |-> G.start, nts |-> G.nts, prods |-> G.prods], n |-> LangN, lang |-> Lang(G, LangN)]
Emit == (done /\ Interesting) => PrintT(<<"VEC", ToJson(Vec)>>)
\* the language is exactly the assigned strings
LangIsFamily == (done /\ Interesting) => Lang(G, LangN) = {StrOf(j - 1) : j \in Of("X") \cup Of("Y")}
=============================================================================
