--------------------------- MODULE Trace_Recovery ---------------------------
(* TV for C31: every recorded `lev` event {act, exp, dist, ops} must satisfy ScriptOk.  Events are *)
(* judged one by one (a failing one is reported, validation continues).                            *)
EXTENDS Naturals, Sequences, TLC, Json, IOUtils
R == INSTANCE Recovery WITH Syms <- {}, MaxLen <- 0, act <- <<>>, exp <- <<>>, stage <- ""
Rec == ndJsonDeserialize(IOEnv.TRACE)
VARIABLE l
E == Rec[l]
Check == /\ l <= Len(Rec) /\ E.ev = "lev" /\ l' = l + 1
         /\ IF R!ScriptOk(E.act, E.exp, E.dist, E.ops) THEN TRUE ELSE PrintT(<<"REJECT", l, ToJson(E)>>)
Init == l = 1
TraceSpec == Init /\ [][Check]_l
TraceAccepted ==
  LET d == TLCGet("stats").diameter - 1 IN
  IF d = Len(Rec) THEN TRUE
  ELSE PrintT(<<"UNMATCHED", d + 1, ToJson(Rec[d + 1])>>) /\ FALSE
=============================================================================
