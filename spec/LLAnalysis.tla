------------------------------ MODULE LLAnalysis ------------------------------
(***************************************************************************)
(* FIRST_k / FOLLOW_k as least fixpoints over plain sequences, strong-LL(k) *)
(* lookahead sets and the minimal-lookahead decision.                      *)
(* Conventions (those of parol's k-tuples): a string that ends with "$" is *)
(* closed (nothing can be appended), epsilon is <<>>, strings are          *)
(* truncated at k.                                                         *)
(***************************************************************************)
EXTENDS Grammar

KTrunc(s, k)  == IF Len(s) <= k THEN s ELSE SubSeq(s, 1, k)
Closed(s)     == s # <<>> /\ s[Len(s)] = End
KCat1(x, y, k) == IF Closed(x) THEN KTrunc(x, k) ELSE KTrunc(x \o y, k)
KCat(X, Y, k) == {KCat1(x, y, k) : x \in X, y \in Y}

\* FIRST_k of a symbol string, given FIRST_k of the non-terminals
RECURSIVE FirstSeqAcc(_, _, _, _, _)
FirstSeqAcc(G, F, rhs, k, acc) ==
  IF rhs = <<>> \/ acc = {} THEN acc
  ELSE LET h == Head(rhs)
           hs == IF IsNT(G, h) THEN F[h] ELSE {<<h>>}
       IN FirstSeqAcc(G, F, Tail(rhs), k, KCat(acc, hs, k))
FirstSeq(G, F, rhs, k) == FirstSeqAcc(G, F, rhs, k, {<<>>})

FirstStep(G, F, k) ==
  [A \in G.nts |-> UNION {FirstSeq(G, F, Rhs(G, i), k) : i \in ProdsOf(G, A)}]
RECURSIVE FirstLfp(_, _, _)
FirstLfp(G, F, k) == LET F2 == FirstStep(G, F, k) IN IF F2 = F THEN F ELSE FirstLfp(G, F2, k)

FirstNT(G, k)       == FirstLfp(G, [A \in G.nts |-> {}], k)
FirstProds(G, F, k) == [i \in ProdIdx(G) |-> FirstSeq(G, F, Rhs(G, i), k)]

\* FOLLOW_k, given FIRST_k of the non-terminals; "$" follows the start symbol
Occ(G, A) == {p \in ProdIdx(G) \X (1..8) : p[2] <= Len(Rhs(G, p[1])) /\ Rhs(G, p[1])[p[2]] = A}
FollowStep(G, F1, Fo, k) ==
  [A \in G.nts |->
     (IF A = G.start THEN {KTrunc(<<End>>, k)} ELSE {})
     \cup UNION {KCat(FirstSeq(G, F1, SubSeq(Rhs(G, p[1]), p[2] + 1, Len(Rhs(G, p[1]))), k),
                      Fo[Lhs(G, p[1])], k) : p \in Occ(G, A)}]
RECURSIVE FollowLfp(_, _, _, _)
FollowLfp(G, F1, Fo, k) ==
  LET Fo2 == FollowStep(G, F1, Fo, k) IN IF Fo2 = Fo THEN Fo ELSE FollowLfp(G, F1, Fo2, k)
FollowNT(G, F1, k) == FollowLfp(G, F1, [A \in G.nts |-> {}], k)

\* everything for one k, computed once
Analysis(G, k) ==
  LET F1 == FirstNT(G, k)
      FP == FirstProds(G, F1, k)
      Fo == FollowNT(G, F1, k)
  IN [first |-> F1, firstp |-> FP, follow |-> Fo,
      la |-> [i \in ProdIdx(G) |-> KCat(FP[i], Fo[Lhs(G, i)], k)]]

\* strong-LL(k) decision for non-terminal A from an Analysis record
DecidableA(G, An, A) ==
  \A i, j \in ProdsOf(G, A) : i = j \/ An.la[i] \cap An.la[j] = {}
ConflictPairs(G, An, A) ==
  {p \in ProdsOf(G, A) \X ProdsOf(G, A) : p[1] # p[2] /\ An.la[p[1]] \cap An.la[p[2]] # {}}

\* Ans : sequence of Analysis records for k = 1..K
MinKOf(G, Ans, A) ==
  IF Cardinality(ProdsOf(G, A)) <= 1 THEN 0
  ELSE LET ks == {k \in 1..Len(Ans) : DecidableA(G, Ans[k], A)}
       IN IF ks = {} THEN Len(Ans) + 1 ELSE Min(ks)
StrongLLOf(G, Ans) == \A A \in G.nts : MinKOf(G, Ans, A) <= Len(Ans)
Analyses(G, K) == [k \in 1..K |-> Analysis(G, k)]

\* design lemma: decidability is monotone in k (so "the smallest k" is meaningful)
DecidableMonotone(G, Ans) ==
  \A A \in G.nts : \A k \in 1..(Len(Ans) - 1) :
     DecidableA(G, Ans[k], A) => DecidableA(G, Ans[k + 1], A)
\* FIRST_k is the k-truncation of the language (cross-check of the fixpoint definition)
FirstIsTruncatedLang(G, F1, k, n) ==
  \A A \in G.nts : {KTrunc(w, k) : w \in LangAll(G, n)[A]} \subseteq F1[A]
=============================================================================
