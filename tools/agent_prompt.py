#!/usr/bin/env python3
"""prints the prompt for a seeding sub-agent: tools/agent_prompt.py C11"""
import json, sys
pid = sys.argv[1]
for l in open('/verif/properties.jsonl'):
    p = json.loads(l)
    if p['id'] == pid:
        break
print(f"""You are helping to evaluate a verification effort for the Rust project jsinger67/parol (an LL(k)/LALR(1) parser generator with a runtime and a language server). You have your own scratch git worktree of the repository at /tmp/wt/{pid} (a checkout of the pinned commit, with a pre-populated `target/` directory so builds are incremental). Work ONLY inside /tmp/wt/{pid}. Do not read or touch /repo, /verif or any other directory under /tmp/wt. There is no network; use `cargo ... --offline`.

Here is a semantic property of parol that is supposed to always hold:

  Title: {p['title']}
  Statement: {p['statement']}

Your task: produce ONE realistic code change ("seeded defect") to parol's source (crates/parol, crates/parol_runtime or crates/parol-ls, non-test code) that BREAKS this property while
  (a) still compiling (`cargo build --workspace --offline`), and
  (b) still passing the existing test suite: `cargo test --workspace --no-fail-fast --offline` must report no failures (run it; it takes a few minutes; if cargo-nextest is available you may use `cargo nextest run --workspace --no-fail-fast --offline` instead).
The change should look like something a maintainer could plausibly commit by mistake during a refactoring or an optimisation (an off-by-one, a wrong comparison, a dropped case, a stale cache, a missing check, two sites that each look fine alone...). It must need something SPECIFIC to manifest — an unusual input, a particular multi-step sequence of operations, a particular interleaving, a boundary case — NOT something every ordinary use would expose at once (ordinary use is what the existing tests do, and they must still pass). Keep it small (typically 1-10 changed lines). Do not touch tests, snapshots or generated files to make the suite pass.

Also write a demonstration: a small Rust integration test file (put it under the affected crate's `tests/` directory, named `seeded_{pid.lower()}_demo.rs`) or a small program that FAILS with your change applied and PASSES on the unchanged code. Verify both directions yourself (git stash / git stash pop, or apply/revert the patch).

Deliverables, all inside /tmp/wt/{pid}/seeded_out/ :
  - patch.diff : `git diff` of the source change ONLY (not the demo), applicable with `git apply` at the repository root
  - the demonstration file(s), plus demo.md with the exact command to run it and where the file must be placed
  - meta.json : {{"property": "{pid}", "summary": "<what the change does>", "needs": "<what specific input/sequence/condition is needed for it to manifest>", "ran": ["<commands you ran and their outcome>"]}}
When done, leave the worktree with the source change REVERTED (git checkout -- . ; the demo file may stay in seeded_out only). In your final answer give a 5-line summary: what you changed, what it needs to manifest, and confirmation that the existing suite passed with the change and that the demo fails with / passes without it. If after honest effort you cannot find such a change, say so and explain why.""")
