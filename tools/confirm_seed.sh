#!/bin/bash
# tools/confirm_seed.sh <id>... : confirm seeded changes in a scratch worktree of /repo HEAD
# (compiles, existing suite passes, demo fails with the change and passes without it)
set -u
WT=/tmp/wt/confirm
if [ ! -d $WT ]; then
  git -C /repo worktree add -q --detach $WT HEAD || exit 2
  cp -r /repo/target $WT/target
fi
git -C $WT checkout -q --detach $(git -C /repo rev-parse HEAD)
for id in "$@"; do
  S=/verif/seeded/$id
  L=$S/confirm.log
  : > $L
  demo=$(ls $S/seeded_*_demo.rs | head -1)
  crate=$(grep -o "cargo test -p [a-z_-]*" $S/demo.md | head -1 | awk '{print $4}')
  [ -z "$crate" ] && crate=parol
  tname=$(basename $demo .rs)
  cd $WT && git checkout -q -- . && git clean -qfd crates
  cp $demo $WT/crates/$crate/tests/
  echo "== demo WITHOUT change" >> $L
  cargo test -p $crate --test $tname --offline >> $L 2>&1; echo "rc_without=$?" >> $L
  git apply $S/patch.diff >> $L 2>&1 || { echo "APPLY FAILED" >> $L; continue; }
  echo "== demo WITH change" >> $L
  cargo test -p $crate --test $tname --offline >> $L 2>&1; echo "rc_with=$?" >> $L
  rm $WT/crates/$crate/tests/$tname.rs
  echo "== suite WITH change" >> $L
  cargo nextest run --workspace --no-fail-fast --offline 2>&1 | tail -15 >> $L; echo "rc_suite=${PIPESTATUS[0]}" >> $L
  git checkout -q -- . && git clean -qfd crates
  grep -E "^rc_" $L | tr '\n' ' '; echo " <- $id"
done
