#!/usr/bin/env python3
"""Regenerates /verif/MANIFEST.json from the table below (single source of truth for the interface)."""
import json, os, sys
ROOT = os.path.dirname(os.path.dirname(os.path.abspath(__file__)))
sys.path.insert(0, os.path.join(ROOT, "lib"))

ALL = [f"C{i:02d}" for i in range(1, 35)]

# id -> (level, text, note, technique, design_ref)
CLAIMED = {
 "C11": ("model_checking",
         "TLC enumerates every grammar of the bounded universe (GrammarEnum machine), checks that the fixpoint "
         "definitions of nullable/productive agree with their language-based characterisation, and emits the four "
         "sets per grammar; the harness compares parol's four public functions and the verdict + payload of "
         "check_and_transform_grammar (LL and LALR, direct Cfg and via PAR text, both production orders) with them.",
         "Bounded universe (quick: 2 non-terminals/2 terminals/<=3 productions/rhs<=2; thorough: 3/2/4/2); TLC, the "
         "Json module and the 60-line projection in harness/src/checks/wf.rs are trusted.",
         "TLA+ definitions (Grammar.tla) evaluated by TLC over an exhaustively enumerated grammar machine; vectors replayed against the real functions",
         "DESIGN.md §6 C11"),
 "C05": ("model_checking",
         "TLC enumerates every well-formed left-recursion-free grammar of the bounded universe plus guided random walks over a wider "
         "one, computes FIRST_k/FOLLOW_k/lookahead sets as least fixpoints (LLAnalysis.tla), checks that decidability is monotone in k "
         "and that FIRST_k is the k-truncation of the bounded language, and emits StrongLL(G,K), MinK per non-terminal and the "
         "conflicting non-terminals for K=1..3. The harness compares calculate_lookahead_dfas, decidable and explain_conflicts.",
         "Bounded universe + sampled wide universe; K<=3; MaxKExceeded carries no name, so naming is observed via decidable/explain_conflicts.",
         "TLA+ least-fixpoint definitions evaluated by TLC over an enumerated grammar machine; vectors replayed against the real analysis",
         "DESIGN.md §6 C05"),
 "C06": ("model_checking",
         "Same universe as C05. TLC additionally model-checks Solvers.tla: the seeded Jacobi chain (FIRST) and seeded Gauss-Seidel chain "
         "(FOLLOW) as coded reach the least fixpoints for every accepted grammar, and the CacheOrders machine enumerates request orders. "
         "The harness replays request orders on one FirstCache/FollowCache pair and compares every answer (per non-terminal and production) "
         "with the definition.",
         "k<=3; request orders of length <=3 (quick) / <=4 (thorough) sampled per grammar by hash plus ascending/descending; reading the "
         "cached FOLLOW sets needs the cfg(parol_verif) accessor.",
         "TLC model checking of the solver chains + cache machine; TLC-generated vectors and request orders replayed on the real caches",
         "DESIGN.md §6 C06"),
 "C07": ("model_checking",
         "For every accepted grammar of the C05 universe the expected language of each lookahead automaton is TLC's LaSet(G,k,p); the "
         "harness walks the unminimised LookaheadDFA and the compiled/minimised automaton of the export model on every string up to "
         "length k+1 and compares prediction per string, plus sortedness/density/k.",
         "Automata are read through their public fields / the serialised export model; strings up to k+1 over the grammar's terminals and $.",
         "TLC-computed lookahead sets as oracle; exhaustive walk of both automata per grammar",
         "DESIGN.md §6 C07"),
 "C01": ("model_checking",
         "GEN: TLC emits each grammar with its bounded language; parol's whole pipeline builds the parser, the real LLKParser runs on every "
         "token string up to length n over terminals + a foreign token with recovery on and off; Ok iff member. TV: recorded runs are "
         "validated step by step by LLParser.tla (a successful run is a leftmost derivation of the whole input over parol's transformed "
         "grammar; rejected runs may not end in success and are checked against the bounded language of the transformed grammar).",
         "n=4 (quick) / 5 (thorough), K<=3; tables are read from the generated source by the harness (syn + scnr2_generate) instead of rustc.",
         "TLC-generated language vectors replayed through the full pipeline + TLC trace validation of the real parser's call sequence",
         "DESIGN.md §6 C01"),
 "C02": ("model_checking",
         "Trace validation: every open/tok/close/action event of recorded LL runs must be an enabled Predict/Match/EndProd step of the PDA "
         "over parol's transformed grammar; EndProd checks the action's production, its child count and that the children are exactly the "
         "top of the tree stack (tokens identified by type and offset); at success the tree stack is the start symbol and the input is consumed.",
         "A sample of inputs per grammar (sentences and non-sentences) x 3 texts x 6 option sets; rejected runs are only required not to "
         "call actions after the first error and not to end in success.",
         "TLC trace validation (LLParser.tla) of the real parser's tree-builder and user-action calls",
         "DESIGN.md §6 C02"),
 "C08": ("model_checking",
         "The real LookaheadDFA::eval is called on a real TokenStream for every window of up to k+1 tokens (terminals and a foreign token) "
         "for every non-terminal of every accepted grammar; the `eval` events are validated by LLParser.tla against the lookahead sets of "
         "parol's transformed grammar (no guess, error iff no lookahead string matches, the matching production otherwise). The same guard "
         "is applied to every expansion of recorded parser runs.",
         "windows up to k+1 tokens, k<=3; lookahead sets recomputed by TLC from the grammar encoded in the generated tables.",
         "TLC trace validation of eval() results against TLA+ lookahead sets, all windows enumerated",
         "DESIGN.md §6 C08"),
 "C20": ("model_checking",
         "Trace validation: for each sampled input the reference run (untrimmed, recovery on, no limit) is validated as a PDA run; runs with "
         "trimming, recovery off and depth limits 0..3/64 must perform exactly the reference's action sequence and verdict, or fail with "
         "MaxParsingDepthExceeded exactly when the spec's depth counter (non-push productions) exceeds the limit.",
         "LL side only so far (LR runs are added with C03); limits that are hit after a syntax error are not tracked.",
         "TLC trace validation with a reference-run comparison (LLParser.tla)",
         "DESIGN.md §6 C20"),
 "C10": ("model_checking",
         "TLC enumerates the grammar universe (all grammars whose start symbol has a production) and guided random walks; the harness "
         "runs parol::left_factor (20 s deadline) on each, also with non-terminals renamed to the names left factoring generates "
         "(<X>Suffix, <X>Suffix0, ..), and records input/output; Xform.tla (TLC trace validation) checks equal bounded language, every "
         "original non-terminal keeps its language, and no two non-empty alternatives of a non-terminal share their first symbol.",
         "language equality up to length 4; symbol equality = name equality (vector grammars carry no attributes).",
         "TLC-enumerated inputs; TLC validates each recorded input/output pair of the real transformation against the TLA+ language definition",
         "DESIGN.md §6 C10"),
 "C12": ("model_checking",
         "Every well-formed grammar of the universe (left/right/start-recursive ones included, plus renamings to <Start>0/<Start>1) goes "
         "through check_and_transform_grammar(.., LALR1); Xform.tla checks on the recorded pair: same bounded language, start symbol has "
         "exactly one production and occurs on no right-hand side, original non-terminals keep their languages.",
         "language equality up to length 4.",
         "TLC-enumerated inputs; TLC trace validation of input/output pairs (Xform.tla)",
         "DESIGN.md §6 C12"),
 "C03": ("model_checking",
         "TLC classifies every well-formed grammar of the universe as LALR(1) or not with a canonical-LR(1)-merged-by-core construction "
         "(LR1.tla) and emits its bounded language. parol's LALR(1) pipeline runs under catch_unwind (a crash on an LALR(1) grammar is a "
         "violation); for tables without resolved conflicts the real LRParser must succeed exactly on the sentences (all strings up to "
         "n); sampled runs are validated by LRParser.tla: every reported reduction pops exactly its right-hand side from the symbol "
         "stack, success needs stack = <<start>> with all input shifted, and the final tree is the derivation tree.",
         "n=4/5; shifts are inferred from the byte offsets of the tokens handed to the reductions (the recorder knows where it put each "
         "token); crashes on grammars that are not LALR(1) are C26's.",
         "TLC LR(1) oracle + language vectors replayed through the pipeline; TLC trace validation of the reduction sequence and tree",
         "DESIGN.md §6 C03"),
 "C04": ("model_checking",
         "Same vectors as C03: for every grammar the oracle says is not LALR(1) parol must return Err or a non-empty resolved-conflict list; "
         "for tables with resolved conflicts every accepted string up to length n must be a sentence (runs are depth-guarded).",
         "n=4/5; the converse (parol reports a conflict although the oracle says LALR(1)) is counted, not required.",
         "TLC LR(1)-merge oracle for 'is LALR(1)', language vectors for soundness of resolved tables",
         "DESIGN.md §6 C04"),
 "C31": ("model_checking",
         "Recovery.tla enumerates all pairs of token sequences (3 symbols, length <=4; thorough 4 symbols, <=5) with the minimal edit "
         "distance (metric laws model-checked); the real levenshtein_distance must report it; Trace_Recovery.tla validates every recorded "
         "script: applied by adjust_token_stream's consumption rule it yields the expected sequence and its non-keep length is the distance.",
         "the function is reached through the cfg(parol_verif) re-export parol_runtime::verif.",
         "TLC-enumerated pairs + TLA+ DP oracle; TLC trace validation of every script",
         "DESIGN.md §6 C31"),
 "C32": ("model_checking",
         "KTuple.tla is a reference model of bounded terminal strings (epsilon, end-of-input closing, truncation at k); TLC enumerates all "
         "operation sequences of length 4 (5) over 2 (3) registers for several k and model-checks algebraic laws; the harness replays "
         "each sequence on the packed Terminals/TerminalString for max_terminal_index at every bit-width boundary and compares iteration, "
         "get, len, epsilon/empty/completeness tests after every step and Eq/Ord at the end.",
         "ordering is required to be a total order determined by the denoted sequence, not a particular one; KTuples (sets) are exercised "
         "through C05/C06.",
         "TLC-enumerated operation sequences with abstract results replayed on the real representation",
         "DESIGN.md §6 C32"),
 "C13": ("model_checking",
         "Scanner.tla defines tokenisation (longest match, first declared on ties, positive/negative lookahead, enter/push/pop with pop "
         "on the empty stack, automatic tokens, error token / gaps); for every configuration of its catalogue TLC enumerates all texts up "
         "to the bound with the expected token sequence. The real scanner (parol pipeline -> generated source -> scnr2_generate) is read "
         "through the real TokenStream with k=1,2,3 and three consumption schedules; all nine sequences must equal the expected one.",
         "texts up to 4 (6) characters; regular expressions limited to the interpreted fragment; the scanner tables are built by the "
         "harness with scnr2_generate instead of the proc-macro.",
         "TLA+ executable definition of the tokenisation rules; TLC-enumerated texts replayed on the real scanner and token stream",
         "DESIGN.md §6 C13"),
 "C14": ("model_checking",
         "Same machinery as C13 comparing per token the text slice, byte offsets and start/end line/column with the positions computed by "
         "Scanner.tla (multi-byte characters, CR/LF, gaps); the generated LL and LR parsers run on every text and on success the tree's "
         "leaves must be exactly the expected tokens. Contiguity of leaves is also enforced on every recorded parser run by the trace specs.",
         "texts up to 4 (6) characters over 4 configurations; known finding F05 (scnr2) suppressed for exactly its inputs.",
         "TLA+ position/tokenisation definition; exhaustive texts replayed on scanner, token stream and both parsers",
         "DESIGN.md §6 C14"),
 "C15": ("model_checking",
         "Comment configurations (/* */, <!-- -->, (* *), --- --, //, --) with texts built from delimiter pieces; expected comment end = "
         "first occurrence of the end delimiter (string search in Scanner.tla, independent of parol's regular expression); line comments "
         "include their line break.",
         "texts up to 6 (8) pieces; lone CR is not treated as a line end; known finding F07 suppressed for exactly its inputs.",
         "TLA+ first-occurrence definition; TLC-enumerated texts replayed on the real scanner",
         "DESIGN.md §6 C15"),
 "C16": ("model_checking",
         "Configurations with/without %allow_unmatched and with automatic newline/whitespace off: expected stream has a non-skippable "
         "error token for every unmatched character (also line feeds) or a skipped gap when unmatched input is allowed; LL and LR parsers "
         "must fail exactly when an error token is expected and keep gaps as leaves.",
         "texts up to 4 (6) characters; known finding F06 suppressed for exactly its inputs.",
         "TLA+ definition of unmatched-input handling; exhaustive texts replayed on scanner and parsers",
         "DESIGN.md §6 C16"),
 "C17": ("model_checking",
         "(a) Scanner.tla configurations with state-specific %skip lists (incl. a skipped token that itself switches the state) and comments: "
         "expected skip flags; LL and LR parsers succeed iff no error token, deliver each comment once in order, keep skipped tokens as "
         "leaves. (b) LLParser.tla validates runs on texts decorated with blanks/newlines/comments against the plain text's run: same "
         "verdict and action sequence (metamorphic), comments once in order on accepted inputs.",
         "texts up to 4 (6) characters; decorated variants: 2 per sampled input.",
         "TLA+ tokenisation definition + TLC trace validation with a metamorphic reference run",
         "DESIGN.md §6 C17"),
 "C09": ("model_checking",
         "Gen_Ebnf.tla enumerates EBNF grammars as bracketed token sequences (exhaustive single production core + random two-production "
         "walks); parol's front end canonicalises the PAR text (LL and LALR flavours, also with non-terminals renamed to generated helper "
         "names); Xform.tla checks each recorded pair: every user non-terminal has the same bounded language as its EBNF definition "
         "(LangE of Ebnf.tla), result is plain BNF.",
         "language equality up to length 4; right-hand sides up to 5 (6) tokens exhaustive, 8 tokens sampled.",
         "TLA+ EBNF semantics; TLC trace validation of canonicalisation input/output pairs",
         "DESIGN.md §6 C09"),
 "C18": ("model_checking",
         "Gen_Term.tla enumerates terminal occurrence lists (texts x quoting styles x lookahead) with the token number each occurrence must "
         "get; the harness compares the numbers used by the production tables (source, export model), the scanner entries (source, export "
         "model), the size of the name table, and runs the sentence.",
         "lists of up to 2 (3) occurrences exhaustive, 4 sampled; automata/LR/skip/transition numbering is tied by C21.",
         "TLC-enumerated occurrence lists with expected numbering replayed on every generated part",
         "DESIGN.md §6 C18"),
 "C21": ("model_checking",
         "Per accepted grammar (grammar universe LL+LR, scanner catalogue, all repository .par files) three views - tables read back from "
         "the generated source, export model, analysis results - are recorded; Tables.tla requires field-wise equality and all indices in range.",
         "the views are produced by projections in harness/src/checks/tables.rs; the unminimised analysis automata are compared by k/prod0 "
         "only (their language is C07's subject).",
         "TLC trace validation of three-way table agreement and index ranges",
         "DESIGN.md §6 C21"),
 "C33": ("model_checking",
         "A catalogue of clash-provoking grammars plus the C21 inputs; per accepted grammar the names of TERMINAL_NAMES, NON_TERMINALS and of "
         "the generated user-trait source (types, members per type, methods per trait; read with syn) are validated by Names.tla: valid "
         "Rust identifiers, required distinctness.",
         "identifier validity is ASCII (what parol emits); keywords only as raw identifiers; known finding F10.",
         "TLC trace validation of generated identifier tables against a TLA+ identifier/distinctness specification",
         "DESIGN.md §6 C33"),
 "C25": ("model_checking",
         "Gen_Flags.tla enumerates feature subsets of the PAR model (17 features); the harness writes the grammar, parol reads it, renders it "
         "with render_par_string and reads it back, before and after transformation; ParModel.tla compares the projected models field by "
         "field. All repository .par files take the same path.",
         "subsets of <= 3 (5) features and complements of <= 2; the projection lists exactly what the property names (symbols, clipping, member "
         "names, user types, scanner states, lookahead, declarations, scanner configuration).",
         "TLC-enumerated feature combinations; TLC trace validation of model equality after the round trip",
         "DESIGN.md §6 C25"),
 "C26": ("exploration",
         "Unfiltered grammar universe (LL and LALR, K in 1,3,10), EBNF universes, all repository .par files with seeded mutations, random "
         "bytes through the whole pipeline under catch_unwind; panics are reported with their source location.",
         "TLC enumerates the structured part of the input space (grammar universes, EBNF universes, directive x definition shapes of Gen_Decl.tla); the mutated/random part is sampled (seeded); hangs are counted, not reported.",
         "TLC-enumerated grammar universes + seeded mutation fuzzing of the whole pipeline, panic = violation",
         "DESIGN.md §6 C26"),
 "C19": ("exploration",
         "LL and LR parsers of every accepted grammar of the universe run on seeded random token soups and random code-point strings, recovery "
         "on/off, per-run deadline and catch_unwind; LR runs with a 20000 depth guard to turn runaways into findings; error-entry discipline checked.",
         "sampled inputs; the step-wise recovery discipline on short inputs is in C01/C02's trace validation.",
         "TLC-enumerated grammars, seeded random inputs on the real run-time with deadline / panic detection",
         "DESIGN.md §6 C19"),
 "C29": ("model_checking",
         "LsDiag.tla models the main loop (handle / ok sections) and the background analysis threads (run / pub sections) publishing into "
         "one channel; TLC proves FinalDiagnosticsCurrent for the required behaviour (all interleavings, 3 edits x 4 text classes) and "
         "shows the as-coded structure violates it. Every schedule of the as-coded machine (within bounds) is replayed through the real "
         "parol-ls binary over LSP with the cfg(parol_verif) gate forcing that exact order; Trace_LsDiag.tla checks the observed publish "
         "sequence is the model's (conformance) and ends with the final text's diagnostics at the final version (property).",
         "one document, <= 3 edits; quick replays all 2-edit schedules and every 12th 3-edit schedule; known finding F15 covers exactly the "
         "histories the as-coded model predicts.",
         "TLC model checking of all interleavings + schedule replay through the real server + TLC trace validation",
         "DESIGN.md §6 C29"),
 "C34": ("exploration",
         "Differential parsing: every text (repository grammars, catalogues, TLC-enumerated templates and EBNF grammars, each with seeded "
         "mutations) is parsed by parol's parser and by the language server's parser (batch mode hook); ParseAgree.tla requires equal syntax "
         "verdicts and no panic.",
         "sampled texts; bounded CFG equivalence of the two grammars by TLC is infeasible at 43 terminals (DESIGN.md).",
         "differential testing of the two parsers with TLC-generated and mutated texts, verdicts compared by a TLC trace spec",
         "DESIGN.md §6 C34"),
 "C24": ("model_checking",
         "Gen_G with Filter=tie enumerates the grammars in which left factoring has to choose between equally large prefix groups (HasTie); "
         "these, repository grammars and the naming catalogue are generated end to end in 5 (16) separate processes each and expanded grammar, "
         "parser source and user-trait source must be byte-identical.",
         "process-level nondeterminism (hash seeds) only; same binary, same options; library API instead of the parol binary.",
         "TLC-enumerated tie grammars (the inputs on which the outcome could depend on iteration order) run in M processes and compared",
         "DESIGN.md §6 C24"),
 "C22": ("exploration",
         "Gen_Flags.tla enumerates combinations of the AST-relevant PAR features; each template grammar is generated through the real "
         "parol::build::Builder into one crate (stub user type as `parol new` writes it, path dependency on the repository's parol_runtime) "
         "and `cargo build --offline` must succeed; errors are attributed to the generated module.",
         "rustc is the oracle; subsets of <= 2 (3) features and complements of <= 1; one template shape.",
         "TLC-enumerated feature combinations, real Builder, rustc as oracle",
         "DESIGN.md §6 C22"),
 "C23": ("exploration",
         "Same crate as C22, then run: for the sentences of each template (0/1/3 repetitions, optional present/absent, both group alternatives) "
         "the start symbol's user action must be called exactly once and the tokens in the Debug rendering of its argument, in order, must "
         "be the input's non-clipped tokens; the optional member is Some iff it occurred.",
         "expected token lists come from the template's own construction in lib/p_gen.py; one template shape.",
         "TLC-enumerated feature combinations, compile-and-run comparison of the typed AST with the input",
         "DESIGN.md §6 C23"),
 "C27": ("exploration",
         "LsText.tla defines the Format step on the abstract grammar description (model' = model, comments' = comments, second formatting "
         "is the identity). The real parol-ls formats texts over LSP (all 8 option combinations via workspace/didChangeConfiguration), the "
         "driver applies the edits and formats again; the harness reads original and result with parol's own front end and extracts comments "
         "by running parol.par on both through the run-time parser; TLC validates each recorded step against LsText.tla. Texts: repository "
         "grammars, TLC-enumerated feature templates, and a generator that puts one (two) block/line comments at every token boundary.",
         "sampled texts; comment texts compared as concatenation (adjacent block comments are read as one by parol's scanner, see C15); "
         "known finding F19 covers exactly the two-comments-inside-a-prolog-declaration class.",
         "real language server driven over LSP, results abstracted by parol's own parser, each step validated by a TLC trace specification",
         "DESIGN.md §6 C27"),
 "C28": ("exploration",
         "LsText.tla defines RenameNT / RenameState on the abstract grammar description. For every renameable symbol of every text the real "
         "parol-ls gets prepareRename + rename at its occurrences (found independently by running parol.par on the text), the driver applies "
         "the WorkspaceEdit, and TLC validates: result is a valid grammar, its model is the renamed model, comments unchanged, text equals "
         "the original with exactly that symbol's occurrences replaced.",
         "sampled texts (repository grammars, TLC-enumerated templates); quick asks at first/last occurrence only.",
         "real language server driven over LSP, results abstracted by parol's own parser, each step validated by a TLC trace specification",
         "DESIGN.md §6 C28"),
 "C30": ("exploration",
         "Gen_Text.tla enumerates every text of <= 3 (4) pieces over {a, 2-byte char, 4-byte char, CR, LF, ':', PAR fragments}; for each text "
         "(and repository grammars) the real parol-ls is asked documentSymbol, formatting and, at every line 0..lines and every UTF-16 column "
         "0..longest+2, hover, definition, prepareRename, rename, codeAction; every request must be answered and the process must stay alive "
         "(debug build: overflow checks and debug assertions on).",
         "exhaustive over the small text universe only; pos_to_offset's result is observed through panics, not directly.",
         "TLC-enumerated texts x all positions x all request kinds against the real server over LSP; crash / missing answer = violation",
         "DESIGN.md §6 C30"),
}

NOT_YET = "check not built yet in this round (see DESIGN.md §11.2 build order); will be claimed once its quick check passes on the unchanged tree"
NA_REASONS = {}

def main():
    checks = []
    for pid in ALL:
        if pid not in CLAIMED:
            continue
        level, text, note, tech, ref = CLAIMED[pid]
        checks.append({
            "property_id": pid,
            "quick_cmd": f"./check {pid} quick",
            "thorough_cmd": f"./check {pid} thorough",
            "evidence_file": f"/verif/evidence/{pid}.json",
            "replay_cmd_template": f"./check {pid} quick --replay {{path}}",
            "engine": "tlc+pv",
            "level_claimed": {"category": level, "text": text, "design_ref": ref},
            "level_note": note,
            "technique": tech,
        })
    m = {
        "version": 1,
        "setup_cmd": "./check --setup",
        "hooks": {
            "guard": "parol_verif",
            "enable": "RUSTFLAGS='--cfg parol_verif' (set in /verif/harness/.cargo/config.toml; the harness crate path-depends on /repo/crates/*)",
            "baseline_off_cmd": "cd /repo && cargo test --workspace --no-fail-fast --offline",
            "source_commits": ["aaf3525", "c2381e3", "b473e06", "a964c6b"],
            "add_only": True,
        },
        "engines": [
            {"name": "tlc+pv", "path": "/verif/check",
             "serves_properties": sorted(CLAIMED),
             "kind_free_text": "TLA+ specifications in /verif/spec checked with TLC (MC), TLC-generated vectors replayed "
                               "against parol by the Rust harness /verif/harness (GEN), traces recorded from parol validated "
                               "by TLC trace specifications (TV)"},
        ],
        "checks": checks,
        "notes": "See DESIGN.md. exit 0 = held (KNOWN-FINDING lines possible), 1 = VIOLATION line, 2 = tool error.",
        "not_applicable": [{"property_id": p, "reason": NA_REASONS.get(p, NOT_YET)} for p in ALL if p not in CLAIMED],
    }
    with open(os.path.join(ROOT, "MANIFEST.json"), "w") as f:
        json.dump(m, f, indent=1)
        f.write("\n")
    try:
        import jsonschema
        jsonschema.validate(m, json.load(open("/root/.vp/MANIFEST.schema.json")))
        print("MANIFEST.json valid;", len(checks), "checks")
    except ImportError:
        print("MANIFEST.json written (jsonschema not available to validate)")

if __name__ == "__main__":
    main()
