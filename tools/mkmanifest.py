#!/usr/bin/env python3
"""Regenerates /verif/MANIFEST.json from the table below (single source of truth for the interface)."""
import json, os, sys
ROOT = os.path.dirname(os.path.dirname(os.path.abspath(__file__)))
sys.path.insert(0, os.path.join(ROOT, "lib"))

ALL = [f"C{i:02d}" for i in range(1, 35)]

# id -> (level, text, note, technique, design_ref)
CLAIMED = {
 "C11": ("model_checking",
         "TLC enumerates every grammar of the bounded universe (GrammarEnum machine), checks that the fixpoint "
         "definitions of nullable/productive agree with their language-based characterisation, and emits the four "
         "sets per grammar; the harness compares parol's four public functions and the verdict + payload of "
         "check_and_transform_grammar (LL and LALR, direct Cfg and via PAR text, both production orders) with them.",
         "Bounded universe (quick: 2 non-terminals/2 terminals/<=3 productions/rhs<=2; thorough: 3/2/4/2); TLC, the "
         "Json module and the 60-line projection in harness/src/checks/wf.rs are trusted.",
         "TLA+ definitions (Grammar.tla) evaluated by TLC over an exhaustively enumerated grammar machine; vectors replayed against the real functions",
         "DESIGN.md §6 C11"),
}

NOT_YET = "check not built yet in this round (see DESIGN.md §11.2 build order); will be claimed once its quick check passes on the unchanged tree"
NA_REASONS = {}

def main():
    checks = []
    for pid in ALL:
        if pid not in CLAIMED:
            continue
        level, text, note, tech, ref = CLAIMED[pid]
        checks.append({
            "property_id": pid,
            "quick_cmd": f"./check {pid} quick",
            "thorough_cmd": f"./check {pid} thorough",
            "evidence_file": f"/verif/evidence/{pid}.json",
            "replay_cmd_template": f"./check {pid} quick --replay {{path}}",
            "engine": "tlc+pv",
            "level_claimed": {"category": level, "text": text, "design_ref": ref},
            "level_note": note,
            "technique": tech,
        })
    m = {
        "version": 1,
        "setup_cmd": "./check --setup",
        "hooks": {
            "guard": "parol_verif",
            "enable": "RUSTFLAGS='--cfg parol_verif' (set in /verif/harness/.cargo/config.toml; the harness crate path-depends on /repo/crates/*)",
            "baseline_off_cmd": "cd /repo && cargo test --workspace --no-fail-fast --offline",
            "source_commits": [],
            "add_only": True,
        },
        "engines": [
            {"name": "tlc+pv", "path": "/verif/check",
             "serves_properties": sorted(CLAIMED),
             "kind_free_text": "TLA+ specifications in /verif/spec checked with TLC (MC), TLC-generated vectors replayed "
                               "against parol by the Rust harness /verif/harness (GEN), traces recorded from parol validated "
                               "by TLC trace specifications (TV)"},
        ],
        "checks": checks,
        "notes": "See DESIGN.md. exit 0 = held (KNOWN-FINDING lines possible), 1 = VIOLATION line, 2 = tool error.",
        "not_applicable": [{"property_id": p, "reason": NA_REASONS.get(p, NOT_YET)} for p in ALL if p not in CLAIMED],
    }
    with open(os.path.join(ROOT, "MANIFEST.json"), "w") as f:
        json.dump(m, f, indent=1)
        f.write("\n")
    try:
        import jsonschema
        jsonschema.validate(m, json.load(open("/root/.vp/MANIFEST.schema.json")))
        print("MANIFEST.json valid;", len(checks), "checks")
    except ImportError:
        print("MANIFEST.json written (jsonschema not available to validate)")

if __name__ == "__main__":
    main()
