#!/bin/bash
# tools/confirm_seed2.sh <id> : confirm a seeded change in the scratch worktree /tmp/wt/<id> (created from /repo HEAD):
# demo passes without the change, fails with it; the existing suite passes with it. Handles demos given as an
# integration test file (seeded_*_demo.rs for crates/<crate>/tests) or as demo.diff adding a unit test.
set -u
id=$1
WT=/tmp/wt/$id
S=/verif/seeded/$id
L=$S/confirm.log
: > $L
cd $WT || exit 2
git checkout -q -- . && git clean -qfd crates
low=$(echo $id | tr A-Z a-z | sed "s/[a-z]$//; s/^c/c/")
if [ -f $S/demo.diff ]; then
  git apply $S/demo.diff >> $L 2>&1 || { echo "DEMO APPLY FAILED" >> $L; }
  crate=$(grep -o "cargo test -p [a-z_-]*" $S/demo.md | head -1 | awk '{print $4}'); [ -z "$crate" ] && crate=parol-ls
  run="cargo test -p $crate --offline seeded_${low}_demo"
else
  demo=$(ls $S/seeded_*_demo.rs | head -1)
  crate=$(grep -o "cargo test -p [a-z_-]*" $S/demo.md | head -1 | awk '{print $4}'); [ -z "$crate" ] && crate=parol
  mkdir -p $WT/crates/$crate/tests; cp $demo $WT/crates/$crate/tests/
  run="cargo test -p $crate --test $(basename $demo .rs) --offline"
fi
if grep -q "cfg parol_verif" $S/demo.md; then export RUSTFLAGS="--cfg parol_verif"; run="$run --target-dir target/verif_demo"; fi
echo "== demo WITHOUT change: $run" >> $L
$run >> $L 2>&1; echo "rc_without=$?" >> $L
git apply $S/patch.diff >> $L 2>&1 || { echo "APPLY FAILED" >> $L; exit 1; }
echo "== demo WITH change" >> $L
$run >> $L 2>&1; echo "rc_with=$?" >> $L
unset RUSTFLAGS
# suite with the change only (demo removed)
git stash -q -u 2>/dev/null; git checkout -q -- . ; git clean -qfd crates; git stash drop -q 2>/dev/null
git apply $S/patch.diff
echo "== suite WITH change" >> $L
cargo nextest run --workspace --no-fail-fast --offline 2>&1 | tail -8 >> $L; echo "rc_suite=${PIPESTATUS[0]}" >> $L
git checkout -q -- . && git clean -qfd crates
grep -E "^rc_" $L | tr '\n' ' '; echo " <- $id"
