#!/bin/bash
# tools/seedtest.sh <seed-id> <check-id>... : run checks against a scratch worktree with the seeded
# change applied (PV_REPO mode; /repo is not touched). Results: seeded/<seed-id>/detect.log
set -u
seedid=$1; shift
WT=/tmp/wt/confirm
[ -d /tmp/wt/$seedid ] && WT=/tmp/wt/$seedid
if [ ! -d $WT ]; then git -C /repo worktree add -q --detach $WT HEAD || exit 2; fi
cd $WT && git checkout -q -- . && git clean -qfd crates && git checkout -q --detach $(git -C /repo rev-parse HEAD)
git apply /verif/seeded/$seedid/patch.diff || { echo "APPLY FAILED"; exit 2; }
cd /verif
for c in "$@"; do
  tier=${TIER:-quick}
  out=$(PV_REPO=$WT ./check $c $tier 2>&1); rc=$?
  nv=$(echo "$out" | grep -c "^VIOLATION")
  echo "$(date +%H:%M) seed=$seedid check=$c tier=$tier rc=$rc violations=$nv" | tee -a seeded/$seedid/detect.log
  echo "$out" | grep -A1 "^VIOLATION" | head -6 >> seeded/$seedid/detect.log
  echo "$out" | grep -i "tool error" -A5 | head -10 >> seeded/$seedid/detect.log
done
cd $WT && git checkout -q -- .
