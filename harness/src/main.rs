//! pv — binding layer between the TLA+ specifications in /verif/spec and the real parol code.
//!
//!   pv replay <kind> <vectors.ndjson> <out.ndjson> [--threads N]
//!         GEN leg: replays TLC-generated vectors against parol, writes one JSON line per
//!         mismatch (`{"mismatch":..}`) and a final `{"summary":..}` line.
//!   pv record <kind> <out.ndjson> [args..]
//!         TV leg: drives parol and records ndjson events for a Trace_*.tla specification.
mod checks;
mod dynrt;
mod gram;

use serde_json::{Value, json};
use std::io::{BufRead, Write};
use std::panic::{AssertUnwindSafe, catch_unwind};

/// result of replaying one vector
#[derive(Default)]
pub struct Outcome {
    pub mismatches: Vec<Value>,
    /// classification tags of this case (non-triviality accounting)
    pub tags: Vec<&'static str>,
    /// number of individual implementation evaluations performed
    pub evals: usize,
    /// events recorded for trace validation (TV leg), written to `<out>.trace`
    pub trace: Vec<Value>,
}
impl Outcome {
    pub fn mismatch(&mut self, what: &str, expected: Value, actual: Value) {
        self.mismatches
            .push(json!({"what": what, "expected": expected, "actual": actual}));
    }
    pub fn tag(&mut self, t: &'static str) {
        if !self.tags.contains(&t) {
            self.tags.push(t);
        }
    }
}

thread_local! {
    /// source location of the last panic on this thread (filled by the panic hook)
    pub static LAST_PANIC_LOC: std::cell::RefCell<String> = const { std::cell::RefCell::new(String::new()) };
}

pub fn panic_msg(e: Box<dyn std::any::Any + Send>) -> String {
    let m = if let Some(s) = e.downcast_ref::<&str>() {
        s.to_string()
    } else if let Some(s) = e.downcast_ref::<String>() {
        s.clone()
    } else {
        "panic".to_string()
    };
    let loc = LAST_PANIC_LOC.with(|l| l.borrow().clone());
    format!("{m} [at {loc}]")
}

/// TLC's Json module cannot read `null`: trace events carry the string "none" instead
fn denull(v: &mut Value) {
    match v {
        Value::Null => *v = json!("none"),
        Value::Array(a) => a.iter_mut().for_each(denull),
        Value::Object(o) => o.values_mut().for_each(denull),
        _ => {}
    }
}

fn replay(kind: &str, vecs: &str, out: &str, threads: usize) -> anyhow::Result<()> {
    let f: fn(&Value) -> Outcome = checks::replay_fn(kind)?;
    let lines: Vec<String> = std::io::BufReader::new(std::fs::File::open(vecs)?)
        .lines()
        .collect::<Result<_, _>>()?;
    let n = lines.len();
    let chunk = n.div_ceil(threads.max(1)).max(1);
    // trace events are streamed to one part file per thread (thorough runs produce gigabytes)
    #[allow(clippy::type_complexity)]
    let results: Vec<(Vec<Value>, std::collections::BTreeMap<String, usize>, usize, usize, usize)> =
        std::thread::scope(|s| {
            let hs: Vec<_> = lines
                .chunks(chunk)
                .enumerate()
                .map(|(ci, ch)| {
                    s.spawn(move || {
                        let mut mism = Vec::new();
                        let mut tags = std::collections::BTreeMap::new();
                        let mut evals = 0usize;
                        let mut nontrivial = 0usize;
                        let mut nev = 0usize;
                        let mut tw = std::io::BufWriter::new(std::fs::File::create(format!("{out}.trace.part{ci}")).expect("trace part file"));
                        for (i, l) in ch.iter().enumerate() {
                            let idx = ci * chunk + i;
                            let v: Value = match serde_json::from_str(l) {
                                Ok(v) => v,
                                Err(e) => {
                                    mism.push(json!({"case": idx, "tool_error": format!("bad vector json: {e}")}));
                                    continue;
                                }
                            };
                            let o = match catch_unwind(AssertUnwindSafe(|| f(&v))) {
                                Ok(o) => o,
                                Err(e) => {
                                    let mut o = Outcome::default();
                                    o.mismatch("panic", json!("no panic"), json!(panic_msg(e)));
                                    o
                                }
                            };
                            evals += o.evals;
                            for mut x in o.trace {
                                denull(&mut x);
                                writeln!(tw, "{x}").expect("write trace");
                                nev += 1;
                            }
                            if !o.tags.is_empty() {
                                nontrivial += 1;
                            }
                            for t in o.tags {
                                *tags.entry(t.to_string()).or_insert(0usize) += 1;
                            }
                            for m in o.mismatches {
                                mism.push(json!({"case": idx, "kind": kind, "vec": v, "mismatch": m}));
                            }
                        }
                        tw.flush().expect("flush trace");
                        (mism, tags, evals, nontrivial, nev)
                    })
                })
                .collect();
            hs.into_iter().map(|h| h.join().unwrap()).collect()
        });
    let mut w = std::io::BufWriter::new(std::fs::File::create(out)?);
    let mut tags = std::collections::BTreeMap::new();
    let mut evals = 0;
    let mut nontrivial = 0;
    let mut nm = 0;
    let mut tw = std::io::BufWriter::new(std::fs::File::create(format!("{out}.trace"))?);
    let mut nev = 0usize;
    for (ci, (m, t, e, nt, n_ev)) in results.into_iter().enumerate() {
        let part = format!("{out}.trace.part{ci}");
        if let Ok(mut f) = std::fs::File::open(&part) {
            std::io::copy(&mut f, &mut tw)?;
        }
        let _ = std::fs::remove_file(&part);
        nev += n_ev;
        for x in m {
            writeln!(w, "{x}")?;
            nm += 1;
        }
        for (k, v) in t {
            *tags.entry(k).or_insert(0usize) += v;
        }
        evals += e;
        nontrivial += nt;
    }
    writeln!(
        w,
        "{}",
        json!({"summary": {"vectors": n, "evaluations": evals, "nontrivial": nontrivial, "tags": tags, "mismatches": nm, "trace_events": nev}})
    )?;
    Ok(())
}

fn main() {
    // panics of code under test are data; keep stderr quiet
    std::panic::set_hook(Box::new(|info| {
        let loc = info.location().map(|l| format!("{}:{}", l.file(), l.line())).unwrap_or_default();
        LAST_PANIC_LOC.with(|l| *l.borrow_mut() = loc);
    }));
    let args: Vec<String> = std::env::args().collect();
    let threads = args
        .iter()
        .position(|a| a == "--threads")
        .and_then(|i| args.get(i + 1))
        .and_then(|s| s.parse().ok())
        .unwrap_or(16usize);
    let r = match args.get(1).map(|s| s.as_str()) {
        Some("replay") if args.len() >= 5 => replay(&args[2], &args[3], &args[4], threads),
        Some("record") if args.len() >= 4 => checks::record(&args[2], &args[3], &args[4..]),
        Some("builder") if args.len() >= 6 => checks::genout::cmd_builder(&args[2], &args[3..]),
        Some("gen") if args.len() >= 3 => checks::genout::cmd_gen(&args[2], &args[3..]),
        Some("run") if args.len() >= 4 => checks::cmd_run(&args[2], &args[3], &args[4..]),
        _ => Err(anyhow::anyhow!("usage: pv replay|record|run ...")),
    };
    if let Err(e) = r {
        eprintln!("pv: tool error: {e:#}");
        std::process::exit(2);
    }
}
