//! C10 / C12: run a grammar transformation on the vector grammar and record the input/output pair
//! for Xform.tla.
use crate::Outcome;
use crate::gram::{JG, tname_text};
use parol::parser::parol_grammar::GrammarType;
use serde_json::{Value, json};
use std::sync::mpsc;
use std::time::Duration;

fn with_deadline<T: Send + 'static>(secs: u64, f: impl FnOnce() -> T + Send + 'static) -> Option<std::thread::Result<T>> {
    let (tx, rx) = mpsc::channel();
    std::thread::spawn(move || {
        let r = std::panic::catch_unwind(std::panic::AssertUnwindSafe(f));
        let _ = tx.send(r);
    });
    rx.recv_timeout(Duration::from_secs(secs)).ok()
}

pub fn replay(v: &Value) -> Outcome {
    let mut o = Outcome::default();
    let g: JG = serde_json::from_value(v["g"].clone()).expect("grammar");
    let kind = std::env::var("PV_XFORM").unwrap_or_else(|_| "leftfactor".into());
    let n: i64 = std::env::var("PV_LANGN").ok().and_then(|s| s.parse().ok()).unwrap_or(4);
    // the names parol generates for helper non-terminals are derived from existing names
    // (<X>Suffix, <X>Suffix0, .. for left factoring; <Start>0, <Start>1 for augmentation): the
    // grammar is also submitted with its non-terminals renamed to exactly such names
    let nts = g.nts.clone();
    let mut renamings: Vec<Vec<(String, String)>> = vec![vec![]];
    let other = |x: &str| nts.iter().find(|n| *n != x).cloned();
    for x in &nts {
        if let Some(y) = other(x) {
            for pat in ["{}Suffix", "{}Suffix0", "{}0", "{}1"] {
                renamings.push(vec![(y.clone(), pat.replace("{}", x))]);
            }
        }
    }
    if nts.len() >= 3 {
        renamings.push(vec![(nts[1].clone(), format!("{}Suffix", nts[0])), (nts[2].clone(), format!("{}Suffix0", nts[0]))]);
        renamings.push(vec![(nts[0].clone(), format!("{}Suffix", nts[1])), (nts[2].clone(), format!("{}Suffix1", nts[1]))]);
    }
    let h = v["g"].to_string().len();
    let nren = std::env::var("PV_RENAMINGS").ok().and_then(|s| s.parse().ok()).unwrap_or(3usize);
    // identity always; a rotating subset of the renamings per vector keeps the volume bounded
    let chosen: Vec<Vec<(String, String)>> = std::iter::once(vec![])
        .chain((0..nren.min(renamings.len() - 1)).map(|i| renamings[1 + (h + i * 5) % (renamings.len() - 1)].clone()))
        .collect();
    for (ri, ren) in chosen.iter().enumerate() {
    for reversed in [false, true] {
        if ri > 0 && reversed {
            continue;
        }
        let mut gg = if reversed { g.reversed() } else { g.clone() };
        let rn = |s: &String| ren.iter().find(|(a, _)| a == s).map(|(_, b)| b.clone()).unwrap_or(s.clone());
        gg.start = rn(&gg.start);
        gg.nts = gg.nts.iter().map(&rn).collect();
        for p in gg.prods.iter_mut() {
            p.lhs = rn(&p.lhs);
            p.rhs = p.rhs.iter().map(&rn).collect();
        }
        if ri > 0 {
            o.tag("renamed_variant");
        }
        let cfg = gg.to_cfg();
        o.evals += 1;
        let cfg2 = cfg.clone();
        let k2 = kind.clone();
        let res = with_deadline(20, move || match k2.as_str() {
            "augment" => parol::check_and_transform_grammar(&cfg2, GrammarType::LALR1).map_err(|e| e.to_string()),
            _ => Ok(parol::left_factor(&cfg2)),
        });
        match res {
            None => o.mismatch(&format!("{kind}/termination"), json!("terminates"), json!("no result after 20 s")),
            Some(Err(e)) => o.mismatch(&format!("{kind}/panic"), json!("no panic"), json!(crate::panic_msg(e))),
            Some(Ok(Err(e))) => {
                // only well-formed grammars are submitted to `augment`
                o.mismatch(&format!("{kind}/error"), json!("Ok"), json!(e));
            }
            Some(Ok(Ok(after))) => {
                let a = JG::from_cfg(&after, &tname_text);
                if a.prods.len() != gg.prods.len() {
                    o.tag("changed");
                } else {
                    o.tag("unchanged");
                }
                o.trace.push(json!({"ev":"xform","kind":kind,"before":gg,"after":a,"n":n,"vec":v}));
            }
        }
    }
    }
    o
}
