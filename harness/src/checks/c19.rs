//! C19 — generated LL(k) and LR parsers return a value on every input: no panic, no hang.
//! Inputs: random token soups (terminals, foreign tokens, comments, newlines) and random
//! code-point strings, recovery on and off.  LR runs carry a very large depth limit so that a
//! table that runs away ends as a reported non-termination instead of exhausting memory.
use crate::Outcome;
use crate::checks::llrun::{DECLS, verdict};
use crate::dynrt::{self, PTables, RunOpts, Tables};
use crate::gram::JG;
use parol::parser::parol_grammar::GrammarType;
use rand::prelude::*;
use serde_json::{Value, json};
use std::sync::mpsc;
use std::time::Duration;

const RUNAWAY: usize = 20_000;

fn run_deadline(t: std::sync::Arc<TablesBox>, text: String, o: RunOpts) -> Result<Vec<Value>, String> {
    let (tx, rx) = mpsc::channel();
    std::thread::spawn(move || {
        let r = std::panic::catch_unwind(std::panic::AssertUnwindSafe(|| dynrt::run(&t.0, &text, o)));
        let _ = tx.send(r.map_err(crate::panic_msg));
    });
    match rx.recv_timeout(Duration::from_secs(60)) {
        Ok(Ok(v)) => Ok(v),
        Ok(Err(m)) => Err(format!("panic: {m}")),
        Err(_) => Err("no result after 60 s".into()),
    }
}

/// the tables only hold leaked 'static data; sharing them between threads is fine
pub struct TablesBox(pub Tables);
unsafe impl Send for TablesBox {}
unsafe impl Sync for TablesBox {}

pub fn replay(v: &Value) -> Outcome {
    let mut o = Outcome::default();
    let g: JG = serde_json::from_value(v["g"].clone()).expect("grammar");
    let nrand: usize = std::env::var("PV_C19_INPUTS").ok().and_then(|s| s.parse().ok()).unwrap_or(30);
    let seed: u64 = std::env::var("VERIF_SEED").ok().and_then(|s| s.parse().ok()).unwrap_or(1);
    let mut rng = StdRng::seed_from_u64(seed ^ (v["g"].to_string().len() as u64 * 2654435761));
    let mut alpha = g.terminals();
    alpha.extend(["x", "//c\n", "/*c*/", "\n", "  ", "\r\n", "é", "/*"].iter().map(|s| s.to_string()));
    for ty in [GrammarType::LLK, GrammarType::LALR1] {
        let name = if ty == GrammarType::LLK { "LL" } else { "LR" };
        let par = g.to_par(ty, DECLS);
        let built = match std::panic::catch_unwind(std::panic::AssertUnwindSafe(|| dynrt::build(&par, 3))) {
            Ok(Ok(b)) => b,
            _ => {
                o.tag("not_accepted");
                continue;
            }
        };
        let tables = match dynrt::tables_from_source(&built.parser_source) {
            Ok(t) => std::sync::Arc::new(TablesBox(t)),
            Err(_) => continue,
        };
        o.tag(if ty == GrammarType::LLK { "LL_accepted" } else { "LR_accepted" });
        let mut resolved = false;
        if let dynrt::Algo::LR(_, r) = &built.algo
            && !r.is_empty()
        {
            o.tag("LR_resolved_conflicts");
            resolved = true;
        }
        for i in 0..nrand {
            let text: String = if i % 3 == 2 {
                // random code points
                (0..rng.random_range(0..12)).map(|_| char::from_u32(rng.random_range(0..0x2FFF)).unwrap_or('?')).collect()
            } else {
                let n = rng.random_range(0..(if i % 3 == 0 { 8 } else { 40 }));
                (0..n).map(|_| alpha[rng.random_range(0..alpha.len())].clone()).collect::<Vec<_>>().join(if rng.random_bool(0.7) { " " } else { "" })
            };
            for rec in [true, false] {
                if matches!(tables.0.p, PTables::LR(_)) && !rec {
                    continue;
                }
                let ro = RunOpts { recovery: rec, max_depth: if matches!(tables.0.p, PTables::LR(_)) { Some(RUNAWAY) } else { None }, ..Default::default() };
                o.evals += 1;
                match run_deadline(tables.clone(), text.clone(), ro) {
                    Ok(evs) => {
                        let (_, kind) = verdict(&evs);
                        if kind == "MaxParsingDepthExceeded" || kind == "UserError" {
                            o.mismatch(&format!("runs-away/{name}"), json!("a result"),
                                       json!({"outcome": format!("parser stack beyond {RUNAWAY} entries without consuming input"), "text": text, "rec": rec, "resolved_conflicts": resolved}));
                        }
                        // error entries: bounded and at distinct locations
                        if let Some(locs) = evs.last().unwrap()["err"]["locs"].as_array() {
                            let mut l: Vec<String> = locs.iter().map(|x| x.to_string()).collect();
                            let n0 = l.len();
                            l.sort();
                            l.dedup();
                            if n0 > 100 || l.len() != n0 {
                                o.mismatch(&format!("error-entries/{name}"), json!("<= 100 entries at distinct locations"), json!({"entries": n0, "distinct": l.len(), "text": text}));
                            }
                        }
                    }
                    Err(m) => o.mismatch(&format!("no-result/{name}"), json!("a result"), json!({"outcome": m, "text": text, "rec": rec})),
                }
            }
        }
    }
    o
}
