//! C34 — parol's own parser verdict on grammar texts (the language server's verdict is added by the
//! driver from parol-ls' batch mode); also expands vectors into the texts both parsers get.
use crate::Outcome;
use parol::ParolGrammar;
use parol_runtime::ParolError;
use serde_json::{Value, json};

pub fn parol_verdict(text: &str) -> String {
    let t = text.to_string();
    match std::panic::catch_unwind(move || {
        let mut g = ParolGrammar::new();
        parol::parse(&t, "verif.par", &mut g).map(|_| ())
    }) {
        Ok(Ok(())) => "ok".into(),
        Ok(Err(ParolError::UserError(e))) => format!("other: {e}"),
        Ok(Err(_)) => "syntax".into(),
        Err(_) => "panic".into(),
    }
}

pub fn replay(v: &Value) -> Outcome {
    let mut o = Outcome::default();
    let mut texts: Vec<(String, String)> = vec![];
    let id = v["id"].as_str().map(String::from).unwrap_or_else(|| v.to_string().chars().take(60).collect());
    let base: String = if let Some(p) = v["par"].as_str() {
        p.to_string()
    } else if v.get("flags").is_some() {
        let flags: Vec<String> = v["flags"].as_array().unwrap().iter().map(|f| f.as_str().unwrap().to_string()).collect();
        crate::checks::c25::template(&flags)
    } else if v.get("cfgdef").is_some() {
        crate::checks::scan::render_par(&v["cfgdef"], v["lr"].as_bool().unwrap_or(false))
    } else if v.get("e").is_some() {
        crate::checks::canon::render(&v["e"], false, &|s: &str| s.to_string())
    } else {
        return o;
    };
    texts.push((format!("{id}#0"), base.clone()));
    let seed0 = v["seed"].as_u64().unwrap_or(7);
    for i in 0..v["mutations"].as_u64().unwrap_or(2) {
        texts.push((format!("{id}#m{i}"), crate::checks::c26::mutate(&base, seed0.wrapping_mul(1000003).wrapping_add(i))));
    }
    for (tid, text) in texts {
        o.evals += 1;
        let verdict = parol_verdict(&text);
        o.tag(if verdict == "ok" { "parol_accepts" } else if verdict == "syntax" { "parol_syntax_error" } else { "parol_other" });
        o.trace.push(json!({"ev":"parse","id":tid,"text":text,"parol":verdict}));
    }
    o
}
