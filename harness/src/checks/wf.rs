//! C11 — well-formedness sets and verdicts against the vectors of Gen_WF.tla
use crate::Outcome;
use crate::gram::{JG, sorted};
use parol::analysis::{non_productive_non_terminals, unreachable_non_terminals};
use parol::parser::parol_grammar::GrammarType;
use parol::{GrammarAnalysisError, check_and_transform_grammar, detect_left_recursive_non_terminals};
use parol_runtime::ParolError;
use serde_json::{Value, json};

fn strs(v: &Value) -> Vec<String> {
    sorted(
        v.as_array()
            .map(|a| a.iter().filter_map(|x| x.as_str().map(String::from)).collect())
            .unwrap_or_default(),
    )
}

/// (class, names) of a rejected grammar, or None if the error is of another kind
pub fn classify(e: &ParolError) -> Option<(&'static str, Vec<String>)> {
    let ParolError::UserError(ae) = e else {
        return None;
    };
    match ae.downcast_ref::<GrammarAnalysisError>()? {
        GrammarAnalysisError::NonProductiveNonTerminals { non_terminals } => Some((
            "nonproductive",
            sorted(non_terminals.iter().map(|h| h.hint.clone()).collect()),
        )),
        GrammarAnalysisError::UnreachableNonTerminals { non_terminals } => Some((
            "unreachable",
            sorted(non_terminals.iter().map(|h| h.hint.clone()).collect()),
        )),
        GrammarAnalysisError::LeftRecursion { recursions } => Some((
            "leftrec",
            sorted(recursions.iter().map(|r| r.name.clone()).collect()),
        )),
        _ => None,
    }
}

pub fn replay(v: &Value) -> Outcome {
    let mut o = Outcome::default();
    let g: JG = match serde_json::from_value(v["g"].clone()) {
        Ok(g) => g,
        Err(e) => {
            o.mismatch("vector", json!("grammar"), json!(e.to_string()));
            return o;
        }
    };
    let e_null = strs(&v["nullable"]);
    let e_nonprod = strs(&v["nonproductive"]);
    let e_unreach = strs(&v["unreachable"]);
    let e_leftrec = strs(&v["leftrec"]);
    if !e_null.is_empty() {
        o.tag("has_nullable");
    }
    if !e_nonprod.is_empty() {
        o.tag("has_nonproductive");
    }
    if !e_unreach.is_empty() {
        o.tag("has_unreachable");
    }
    if !e_leftrec.is_empty() {
        o.tag("has_leftrec");
    }
    if e_nonprod.is_empty() && e_unreach.is_empty() {
        o.tag("well_formed");
    }
    for (ord, gg) in [("given", g.clone()), ("reversed", g.reversed())] {
        let cfg = gg.to_cfg();
        if gg.start_has_production() {
            // the four public set functions
            let a_null = sorted(cfg.calculate_nullable_non_terminals().into_iter().collect());
            let a_nonprod = sorted(non_productive_non_terminals(&cfg));
            let a_unreach = sorted(unreachable_non_terminals(&cfg).into_iter().collect());
            let a_leftrec = sorted(detect_left_recursive_non_terminals(&cfg));
            o.evals += 4;
            for (what, e, a) in [
                ("nullable", &e_null, &a_null),
                ("nonproductive", &e_nonprod, &a_nonprod),
                ("unreachable", &e_unreach, &a_unreach),
                ("leftrec", &e_leftrec, &a_leftrec),
            ] {
                if e != a {
                    o.mismatch(&format!("{what}/{ord}"), json!(e), json!(a));
                }
            }
        }
        // the verdict of check_and_transform_grammar, both on the directly built Cfg and on
        // the Cfg parol's own front end builds from PAR text
        for ty in [GrammarType::LLK, GrammarType::LALR1] {
            let mut allowed: Vec<(&str, &Vec<String>)> = vec![];
            if !e_nonprod.is_empty() {
                allowed.push(("nonproductive", &e_nonprod));
            }
            if !e_unreach.is_empty() {
                allowed.push(("unreachable", &e_unreach));
            }
            if ty == GrammarType::LLK && !e_leftrec.is_empty() {
                allowed.push(("leftrec", &e_leftrec));
            }
            let mut cfgs = vec![("cfg", cfg.clone())];
            match parol::obtain_grammar_config_from_string(&gg.to_par(ty, ""), false) {
                Ok(gc) => cfgs.push(("par", gc.cfg)),
                // the front end has restrictions of its own (e.g. two "token alias" non-terminals
                // for the same text); such texts never reach the checks and are only counted
                Err(_) => o.tag("front_end_rejected_text"),
            }
            for (via, c) in cfgs {
                o.evals += 1;
                let r = check_and_transform_grammar(&c, ty);
                let what = format!("verdict/{ty:?}/{via}/{ord}");
                match r {
                    Ok(_) => {
                        if !allowed.is_empty() {
                            o.mismatch(
                                &what,
                                json!({"rejected_for_one_of": allowed}),
                                json!("accepted"),
                            );
                        }
                    }
                    Err(e) => match classify(&e) {
                        Some((cls, names)) => {
                            if !allowed.iter().any(|(c, n)| *c == cls && **n == names) {
                                o.mismatch(
                                    &what,
                                    json!({"rejected_for_one_of": allowed, "or_accepted": allowed.is_empty()}),
                                    json!({"class": cls, "names": names}),
                                );
                            }
                        }
                        None => o.mismatch(
                            &what,
                            json!("well-formedness verdict"),
                            json!(format!("other error: {e}")),
                        ),
                    },
                }
            }
        }
    }
    o
}
