//! C13 / C14 / C15 / C16: the generated scanner + TokenStream against Scanner.tla's token sequences.
use crate::Outcome;
use crate::dynrt::{self, Tables};
use serde_json::{Value, json};
use std::cell::RefCell;
use std::collections::HashMap;
use std::rc::Rc;
use std::sync::OnceLock;

fn defs() -> &'static HashMap<String, Value> {
    static D: OnceLock<HashMap<String, Value>> = OnceLock::new();
    D.get_or_init(|| {
        let p = std::env::var("PV_SCANCFGS").expect("PV_SCANCFGS not set");
        serde_json::from_str(&std::fs::read_to_string(p).expect("cfg file")).expect("cfg json")
    })
}

pub fn ch(c: &str) -> &str {
    match c {
        "<e>" => "é",
        "<u>" => "😀",
        x => x,
    }
}
fn chars(v: &Value) -> String {
    v.as_array().unwrap().iter().map(|c| ch(c.as_str().unwrap())).collect()
}
fn rx_escape(s: &str) -> String {
    let mut o = String::new();
    for c in s.chars() {
        if r"\.+*?()|[]{}^$/".contains(c) {
            o.push('\\');
        }
        o.push(c);
    }
    o
}
/// comment delimiters are given as users write them: `"/\*" "\*/"` (a slash needs no escape in a string)
fn rx_escape_delim(s: &str) -> String {
    rx_escape(s).replace("\\/", "/")
}
/// scanner state names: even states get a name that sorts BEFORE "INITIAL" so that name order differs from state order
fn mode_name(i: usize) -> String {
    if i == 1 { "INITIAL".into() } else if i % 2 == 0 { format!("A{i}") } else { format!("M{i}") }
}
/// a literal lookahead written as a regular expression of one-character classes (`/[a][b]/` for "ab"): same language, but a
/// different literal kind than the raw terminal it belongs to and with regex meta characters
fn la_regex(s: &str) -> String {
    s.chars().map(|c| format!("[{}]", rx_escape(&c.to_string()))).collect()
}

/// PAR text of a scanner configuration of Scanner.tla's catalogue
pub fn render_par(def: &Value, lr: bool) -> String {
    render_par_ext(def, lr, false)
}

/// `split`: a terminal that lives in several scanner states is written at two places with different
/// state lists (the later occurrence adds the LOWER numbered states), so that parol has to unite them
pub fn render_par_ext(def: &Value, lr: bool, split: bool) -> String {
    let terms = def["terms"].as_array().unwrap();
    let modes = def["modes"].as_array().unwrap();
    let mut s = String::from("%start S\n%title \"t\"\n%comment \"c\"\n");
    if lr {
        s.push_str("%grammar_type 'LALR(1)'\n");
    }
    let directives = |m: &Value| -> String {
        let mut d = String::new();
        if !m["nl"].as_bool().unwrap() {
            d.push_str("%auto_newline_off\n");
        }
        if !m["ws"].as_bool().unwrap() {
            d.push_str("%auto_ws_off\n");
        }
        for l in m["lc"].as_array().unwrap() {
            d.push_str(&format!("%line_comment \"{}\"\n", rx_escape_delim(&chars(l))));
        }
        for b in m["bc"].as_array().unwrap() {
            d.push_str(&format!("%block_comment \"{}\" \"{}\"\n", rx_escape_delim(&chars(&b[0])), rx_escape_delim(&chars(&b[1]))));
        }
        if m["unmatched"].as_bool().unwrap() {
            d.push_str("%allow_unmatched\n");
        }
        for t in m["skip"].as_array().unwrap() {
            d.push_str(&format!("%skip T{}\n", t.as_u64().unwrap() - 4));
        }
        for t in m["trans"].as_array().unwrap() {
            let ty = t["ty"].as_u64().unwrap() - 4;
            match t["act"].as_str().unwrap() {
                "enter" => d.push_str(&format!("%on T{ty} %enter {}\n", mode_name(t["to"].as_u64().unwrap() as usize))),
                "push" => d.push_str(&format!("%on T{ty} %push {}\n", mode_name(t["to"].as_u64().unwrap() as usize))),
                _ => d.push_str(&format!("%on T{ty} %pop\n")),
            }
        }
        d
    };
    s.push_str(&directives(&modes[0]));
    for (i, m) in modes.iter().enumerate().skip(1) {
        s.push_str(&format!("%scanner {} {{\n{}}}\n", mode_name(i + 1), directives(m)));
    }
    // terminals named by %on / %skip directives must keep their full state list at the primary non-terminal
    let mut pinned: Vec<u64> = vec![];
    for m in modes {
        for t in m["skip"].as_array().unwrap() {
            pinned.push(t.as_u64().unwrap() - 4);
        }
        for t in m["trans"].as_array().unwrap() {
            pinned.push(t["ty"].as_u64().unwrap() - 4);
        }
    }
    let splittable = |i: usize, t: &Value| split && t["states"].as_array().unwrap().len() >= 2 && !pinned.contains(&((i + 1) as u64)) && t["pat"]["k"] == "lit";
    s.push_str("%%\nS: {");
    for i in 0..terms.len() {
        s.push_str(if i == 0 { " " } else { " | " });
        s.push_str(&format!("T{}", i + 1));
    }
    if split {
        for (i, t) in terms.iter().enumerate() {
            if splittable(i, t) {
                s.push_str(&format!(" | P{}", i + 1));
            }
        }
    }
    s.push_str(" };\n");
    for (i, t) in terms.iter().enumerate() {
        let states: Vec<String> = t["states"].as_array().unwrap().iter().map(|m| mode_name(m.as_u64().unwrap() as usize)).collect();
        let pat = match t["pat"]["k"].as_str().unwrap() {
            "lit" => format!("'{}'", chars(&t["pat"]["s"])),
            "plus" => {
                let mut cs: Vec<String> = t["pat"]["cs"].as_array().unwrap().iter().map(|c| rx_escape(ch(c.as_str().unwrap()))).collect();
                cs.sort();
                format!("/[{}]+/", cs.join(""))
            }
            k => panic!("unsupported pattern kind {k}"),
        };
        let la = match t["la"].as_str().unwrap() {
            "pos" => format!(" ?= /{}/", la_regex(&chars(&t["las"]))),
            "neg" => format!(" ?! /{}/", la_regex(&chars(&t["las"]))),
            _ => String::new(),
        };
        if splittable(i, t) {
            s.push_str(&format!("T{}: <{}>{}{};\n", i + 1, states[states.len() - 1], pat, la));
        } else {
            s.push_str(&format!("T{}: <{}>{}{};\n", i + 1, states.join(", "), pat, la));
        }
    }
    if split {
        for (i, t) in terms.iter().enumerate() {
            let states: Vec<String> = t["states"].as_array().unwrap().iter().map(|m| mode_name(m.as_u64().unwrap() as usize)).collect();
            if splittable(i, t) {
                let pat = format!("'{}'", chars(&t["pat"]["s"]));
                let la = match t["la"].as_str().unwrap() {
                    "pos" => format!(" ?= /{}/", la_regex(&chars(&t["las"]))),
                    "neg" => format!(" ?! /{}/", la_regex(&chars(&t["las"]))),
                    _ => String::new(),
                };
                s.push_str(&format!("P{}: <{}>{}{} T{};\n", i + 1, states[..states.len() - 1].join(", "), pat, la, i + 1));
            }
        }
    }
    s
}

thread_local! {
    static CACHE: RefCell<HashMap<(String, bool), Option<Rc<Tables>>>> = RefCell::new(HashMap::new());
}

pub fn tables_for(id: &str, lr: bool) -> Result<Rc<Tables>, String> {
    tables_for_ext(id, lr, false)
}

pub fn tables_for_ext(id: &str, lr: bool, split: bool) -> Result<Rc<Tables>, String> {
    CACHE.with(|c| {
        let mut c = c.borrow_mut();
        let key = (format!("{id}{}", if split { "/split" } else { "" }), lr);
        if let Some(t) = c.get(&key) {
            return t.clone().ok_or_else(|| "scanner configuration was rejected before".to_string());
        }
        let def = defs().get(id).ok_or_else(|| format!("no definition for configuration {id}"))?;
        let par = render_par_ext(def, lr, split);
        let r = match dynrt::build(&par, 3) {
            Ok(b) => dynrt::tables_from_source(&b.parser_source).map(Rc::new).map_err(|e| format!("{e:#}\n{par}")),
            Err(e) => Err(format!("{} stage: {:#}\n{par}", e.stage.name(), e.err)),
        };
        c.insert(key, r.as_ref().ok().cloned());
        r
    })
}

pub fn replay(v: &Value) -> Outcome {
    let mut o = Outcome::default();
    let id = v["cfg"].as_str().unwrap();
    let fields = std::env::var("PV_SCAN_FIELDS").unwrap_or_else(|_| "tok".into());
    let tables = match tables_for(id, false) {
        Ok(t) => t,
        Err(e) => {
            if v["text"].as_array().unwrap().is_empty() {
                o.mismatch("configuration-rejected", json!("accepted scanner configuration"), json!(e));
            }
            return o;
        }
    };
    let cs: Vec<&str> = v["text"].as_array().unwrap().iter().map(|c| ch(c.as_str().unwrap())).collect();
    let text: String = cs.concat();
    // char offset -> byte offset
    let mut boff = vec![0usize];
    for c in &cs {
        boff.push(boff.last().unwrap() + c.len());
    }
    let exp: Vec<Value> = v["toks"]
        .as_array()
        .unwrap()
        .iter()
        .map(|t| {
            let (s, e) = (boff[t["s"].as_u64().unwrap() as usize], boff[t["e"].as_u64().unwrap() as usize]);
            if fields == "pos" {
                json!({"ty": t["ty"], "s": s, "e": e, "skip": t["skip"], "text": &text[s..e],
                       "sl": t["sl"], "sc": t["sc"], "el": t["el"], "ec": t["ec"]})
            } else {
                json!({"ty": t["ty"], "s": s, "e": e, "skip": t["skip"]})
            }
        })
        .collect();
    if exp.iter().any(|t| t["ty"] == json!(65534)) {
        o.tag("has_gap");
    }
    if exp.iter().any(|t| t["ty"] == json!(3) || t["ty"] == json!(4)) {
        o.tag("has_comment");
    }
    if exp.len() >= 2 {
        o.tag("two_or_more_tokens");
    }
    // ---- the parsers over the same configuration: S: { T1 | T2 | .. } accepts every sequence of
    // user terminals, so the parse must fail exactly when the expected stream contains the error
    // token, and on success the leaves of the tree are exactly the expected tokens, gaps included
    if std::env::var("PV_SCAN_PARSE").map(|s| s == "1").unwrap_or(false) {
        let def = &defs()[id];
        let err_ty = 5 + def["terms"].as_array().unwrap().len() as u64;
        let exp_ok = !exp.iter().any(|t| t["ty"].as_u64() == Some(err_ty));
        for lr in [false, true] {
            let name = if lr { "LR" } else { "LL" };
            let pt = match tables_for(id, lr) {
                Ok(t) => t,
                Err(e) => {
                    if v["text"].as_array().unwrap().is_empty() {
                        o.mismatch(&format!("configuration-rejected/{name}"), json!("accepted"), json!(e));
                    }
                    continue;
                }
            };
            let evs = crate::checks::llrun::run_safe(&pt, &text, crate::dynrt::RunOpts::default());
            o.evals += 1;
            let (ok, kind) = crate::checks::llrun::verdict(&evs);
            if ok != exp_ok {
                o.mismatch(&format!("parse-verdict/{name}"), json!({"ok": exp_ok, "text": text}), json!({"ok": ok, "err": kind}));
            } else if ok {
                // C17: every comment of the text is delivered exactly once, in order
                let cm: Vec<Value> = evs.iter().filter(|e| e["ev"] == "comment").map(|t| json!([t["s"], t["e"]])).collect();
                let want_cm: Vec<Value> = exp.iter().filter(|t| t["ty"] == json!(3) || t["ty"] == json!(4)).map(|t| json!([t["s"], t["e"]])).collect();
                if cm != want_cm {
                    o.mismatch(&format!("comments/{name}"), json!({"comments": want_cm, "text": text}), json!(cm));
                }
                let leaves: Vec<Value> = evs
                    .iter()
                    .filter(|e| e["ev"] == "tok")
                    .map(|t| json!({"ty": t["ty"], "s": t["s"], "e": t["e"], "skip": t["skip"]}))
                    .collect();
                let want: Vec<Value> = exp.iter().map(|t| json!({"ty": t["ty"], "s": t["s"], "e": t["e"], "skip": t["skip"]})).collect();
                if leaves != want {
                    let i = (0..want.len().max(leaves.len())).find(|i| want.get(*i) != leaves.get(*i)).unwrap();
                    o.mismatch(&format!("tree-leaves/{name}"), json!({"index": i, "token": want.get(i), "text": text}), json!(leaves.get(i)));
                }
            }
        }
    }
    let ks: &[usize] = if fields == "pos" { &[1] } else { &[1, 2, 3] };
    // the same scanner written with terminals split over several occurrences (LALR(1) so that the
    // grammar's conflicts do not matter); only built when some terminal lives in two states
    let split_tables = if fields == "tok" && defs()[id]["terms"].as_array().unwrap().iter().any(|t| t["states"].as_array().unwrap().len() >= 2) {
        match tables_for_ext(id, true, true) {
            Ok(t) => Some(t),
            Err(_) => {
                o.tag("split_variant_rejected");
                None
            }
        }
    } else {
        None
    };
    if let Some(st) = &split_tables {
        o.evals += 1;
        match std::panic::catch_unwind(std::panic::AssertUnwindSafe(|| dynrt::tokenize(st, &text, 1, 0))) {
            Ok(Ok(got)) => {
                let proj: Vec<Value> = got.iter().map(|t| json!({"ty": t["ty"], "s": t["s"], "e": t["e"], "skip": t["skip"]})).collect();
                if proj != exp {
                    let i = (0..exp.len().max(proj.len())).find(|i| exp.get(*i) != proj.get(*i)).unwrap();
                    o.mismatch("tokens-split-occurrences", json!({"index": i, "token": exp.get(i), "text": text}), json!(proj.get(i)));
                }
            }
            Ok(Err(e)) => o.mismatch("tokenize-split-occurrences", json!(exp), json!(format!("error: {e:#}"))),
            Err(e) => o.mismatch("tokenize-panic-split", json!("no panic"), json!(crate::panic_msg(e))),
        }
    }
    for &k in ks {
        for schedule in 0..3u8 {
            if fields == "pos" && schedule > 0 {
                continue;
            }
            o.evals += 1;
            let got = match std::panic::catch_unwind(std::panic::AssertUnwindSafe(|| dynrt::tokenize(&tables, &text, k, schedule))) {
                Ok(Ok(g)) => g,
                Ok(Err(e)) => {
                    o.mismatch(&format!("tokenize/k={k}/sched={schedule}"), json!(exp), json!(format!("error: {e:#}")));
                    continue;
                }
                Err(e) => {
                    o.mismatch(&format!("tokenize-panic/k={k}/sched={schedule}"), json!("no panic"), json!(crate::panic_msg(e)));
                    continue;
                }
            };
            let proj: Vec<Value> = got
                .iter()
                .map(|t| {
                    if fields == "pos" {
                        json!({"ty": t["ty"], "s": t["s"], "e": t["e"], "skip": t["skip"], "text": t["text"],
                               "sl": t["sl"], "sc": t["sc"], "el": t["el"], "ec": t["ec"]})
                    } else {
                        json!({"ty": t["ty"], "s": t["s"], "e": t["e"], "skip": t["skip"]})
                    }
                })
                .collect();
            if proj != exp {
                // first difference
                let i = (0..exp.len().max(proj.len())).find(|i| exp.get(*i) != proj.get(*i)).unwrap();
                o.mismatch(
                    &format!("tokens/k={k}/sched={schedule}"),
                    json!({"index": i, "token": exp.get(i), "text": text}),
                    json!(proj.get(i)),
                );
            }
        }
    }
    o
}
