//! C01 / C02 / C08 / C14 / C17 / C20 (LL side): runs the real generated LL(k) parser (dynrt) on
//! every token string up to a bound and compares the verdict with the bounded language of the
//! vector (GEN leg), and records event streams of a sample of runs for LLParser.tla (TV leg).
use crate::Outcome;
use crate::dynrt::{self, PTables, RunOpts, Tables};
use crate::gram::JG;
use crate::checks::ll::tset;
use parol::parser::parol_grammar::GrammarType;
use serde_json::{Value, json};
use std::panic::{AssertUnwindSafe, catch_unwind};

pub const FOREIGN: &str = "x";
pub const DECLS: &str = "%line_comment \"//\"\n%block_comment \"/\\*\" \"\\*/\"\n";

pub fn all_strings(alpha: &[String], n: usize) -> Vec<Vec<String>> {
    let mut out = vec![vec![]];
    let mut cur = vec![vec![]];
    for _ in 0..n {
        let mut next = vec![];
        for w in &cur {
            for a in alpha {
                let mut w2: Vec<String> = w.clone();
                w2.push(a.clone());
                next.push(w2);
            }
        }
        out.extend(next.iter().cloned());
        cur = next;
    }
    out
}

/// `grammar` event: parol's transformed grammar as encoded in the generated tables
pub fn grammar_event(t: &Tables, n: i64, la: bool) -> Value {
    let PTables::LL(ll) = &t.p else { panic!("LL tables expected") };
    let prods: Vec<Value> = ll
        .productions
        .iter()
        .map(|p| {
            let rhs: Vec<String> = p
                .production
                .iter()
                .rev()
                .map(|s| match s {
                    parol_runtime::parser::ParseType::N(n) => t.non_terminals[*n].to_string(),
                    parol_runtime::parser::ParseType::T(x) => format!("#{x}"),
                    parol_runtime::parser::ParseType::E(_) => "?".to_string(),
                })
                .collect();
            json!({"lhs": t.non_terminals[p.lhs], "rhs": rhs})
        })
        .collect();
    let push: Vec<bool> = ll.productions.iter().map(|p| p.is_push_production).collect();
    let kof: serde_json::Map<String, Value> = t
        .non_terminals
        .iter()
        .enumerate()
        .map(|(i, n)| (n.to_string(), json!(ll.automata[i].k)))
        .collect();
    json!({"ev":"grammar",
           "g": {"start": t.non_terminals[ll.start], "nts": t.non_terminals, "prods": prods},
           "push": push, "kof": kof, "n": n, "la": la})
}

pub fn opts_json(o: &RunOpts) -> Value {
    json!({"trim": o.trim, "rec": o.recovery, "depth": o.max_depth.map(|d| d as i64).unwrap_or(-1)})
}

/// run under catch_unwind; a panic becomes a result event
pub fn run_safe(t: &Tables, text: &str, o: RunOpts) -> Vec<Value> {
    match catch_unwind(AssertUnwindSafe(|| dynrt::run(t, text, o))) {
        Ok(v) => v,
        Err(e) => vec![json!({"ev":"result","ok":false,"err":{"kind":"PANIC","msg":crate::panic_msg(e)}})],
    }
}

pub fn verdict(ev: &[Value]) -> (bool, String) {
    let r = ev.last().unwrap();
    (
        r["ok"].as_bool().unwrap_or(false),
        r["err"]["kind"].as_str().unwrap_or("").to_string(),
    )
}

fn hash_str(s: &str) -> u64 {
    use std::hash::{Hash, Hasher};
    let mut h = std::collections::hash_map::DefaultHasher::new();
    s.hash(&mut h);
    h.finish()
}

/// decorations that must not change the parse (C17): extra blanks, newlines, comments.
/// Returns the text and the byte offset of every token of `w` in it.
pub fn decorate(w: &[String], variant: u64) -> (String, Vec<usize>) {
    let seps = [" ", "  ", "\n", " /* c */ ", " // l\n", "\t", "\r\n", "/**/"];
    let mut s = String::new();
    let mut offs = vec![];
    let mut h = variant;
    if h % 3 == 0 {
        s.push_str(seps[(h / 3 % 8) as usize]);
    }
    for (i, t) in w.iter().enumerate() {
        if i > 0 {
            h = h.wrapping_mul(6364136223846793005).wrapping_add(1442695040888963407);
            s.push_str(seps[(h >> 33) as usize % 8]);
        }
        offs.push(s.len());
        s.push_str(t);
    }
    h = h.wrapping_mul(6364136223846793005).wrapping_add(1442695040888963407);
    if (h >> 33) % 2 == 0 {
        s.push_str(seps[(h >> 40) as usize % 8]);
    }
    (s, offs)
}

/// tokens separated by single blanks
pub fn plain(w: &[String]) -> (String, Vec<usize>) {
    let mut s = String::new();
    let mut offs = vec![];
    for (i, t) in w.iter().enumerate() {
        if i > 0 {
            s.push(' ');
        }
        offs.push(s.len());
        s.push_str(t);
    }
    (s, offs)
}

pub fn replay(v: &Value) -> Outcome {
    let mut o = Outcome::default();
    let g: JG = serde_json::from_value(v["g"].clone()).expect("grammar");
    let n = v["n"].as_u64().unwrap() as usize;
    let lang = tset(&v["lang"]);
    let max_k = std::env::var("PV_MAXK").ok().and_then(|s| s.parse().ok()).unwrap_or(3usize);
    let sample: usize = std::env::var("PV_TV_SAMPLE").ok().and_then(|s| s.parse().ok()).unwrap_or(3);
    let every: u64 = std::env::var("PV_TV_EVERY").ok().and_then(|s| s.parse().ok()).unwrap_or(1);
    let do_gen = std::env::var("PV_GEN").map(|s| s != "0").unwrap_or(true);
    let par = g.to_par(GrammarType::LLK, DECLS);
    let built = match catch_unwind(AssertUnwindSafe(|| dynrt::build(&par, max_k))) {
        Ok(Ok(b)) => b,
        Ok(Err(e)) => {
            o.tag(match e.stage {
                dynrt::Stage::Parse => "rejected_parse",
                dynrt::Stage::Check => "rejected_check",
                dynrt::Stage::Analyse => "rejected_not_LL(K)",
                dynrt::Stage::Generate => "rejected_generate",
            });
            return o;
        }
        Err(e) => {
            o.mismatch("pipeline-panic", json!("Ok or Err"), json!(crate::panic_msg(e)));
            return o;
        }
    };
    let tables = match dynrt::tables_from_source(&built.parser_source) {
        Ok(t) => t,
        Err(e) => {
            o.mismatch("generated-source", json!("readable tables"), json!(format!("{e:#}")));
            return o;
        }
    };
    o.tag("accepted");
    if tables.max_k >= 2 {
        o.tag("k>=2");
    }
    if tables.max_k >= 3 {
        o.tag("k>=3");
    }
    // terminal name -> token type, from the transformed grammar's terminal order
    let tnames: Vec<String> = built
        .gc
        .cfg
        .get_ordered_terminals()
        .iter()
        .map(|(t, ..)| t.to_string())
        .collect();
    let err_ty = tables.terminal_names.len() - 1;
    let ty_of = |name: &str| -> String {
        match tnames.iter().position(|t| t == name) {
            Some(i) => format!("#{}", i + 5),
            None => format!("#{err_ty}"),
        }
    };
    let mut alpha = g.terminals();
    alpha.push(FOREIGN.to_string());
    let words = all_strings(&alpha, n);
    // ---- GEN: verdict on every token string, recovery on and off
    let mut sentences = vec![];
    let mut nonsentences = vec![];
    for w in &words {
        let text = w.join(" ");
        let expected = lang.contains(w);
        for rec in [true, false] {
            if !do_gen {
                break;
            }
            let ev = run_safe(&tables, &text, RunOpts { recovery: rec, ..Default::default() });
            o.evals += 1;
            let (ok, kind) = verdict(&ev);
            if kind == "PANIC" {
                o.mismatch(&format!("panic/rec={rec}"), json!({"input": w}), ev.last().unwrap().clone());
            } else if ok != expected {
                o.mismatch(
                    &format!("verdict/rec={rec}"),
                    json!({"input": w, "sentence": expected}),
                    json!({"ok": ok, "err": kind}),
                );
            }
        }
        if expected {
            sentences.push(w.clone());
        } else {
            nonsentences.push(w.clone());
        }
    }
    if !sentences.is_empty() {
        o.tag("has_sentences");
    }
    // ---- TV: a sample of inputs with all option variants and decorated texts
    let h0 = hash_str(&v["g"].to_string());
    if sample == 0 || h0 % every != 0 {
        return o;
    }
    let pick = |xs: &Vec<Vec<String>>, m: usize, salt: u64| -> Vec<Vec<String>> {
        if xs.len() <= m {
            return xs.clone();
        }
        // longest first is more interesting; then spread by hash
        let mut idx: Vec<usize> = (0..xs.len()).collect();
        idx.sort_by_key(|i| (std::cmp::Reverse(xs[*i].len()), hash_str(&format!("{h0}{salt}{i}"))));
        idx.into_iter().take(m).map(|i| xs[i].clone()).collect()
    };
    let mut ge = grammar_event(&tables, n as i64, true);
    ge["vec"] = v.clone();
    o.trace.push(ge);
    // ---- C08: the real eval() on every window up to k+1 tokens (terminals + foreign token)
    if std::env::var("PV_EVAL").map(|s| s != "0").unwrap_or(true)
        && let PTables::LL(ll) = &tables.p
    {
        for (nti, a) in ll.automata.iter().enumerate() {
            if a.k == 0 {
                continue;
            }
            for w in all_strings(&alpha, (a.k + 1).min(tables.max_k + 1)) {
                let text = w.join(" ");
                let window: Vec<String> = w.iter().map(|t| ty_of(t)).collect();
                let res = match catch_unwind(AssertUnwindSafe(|| dynrt::eval_window(&tables, nti, &text))) {
                    Ok(Ok(r)) => json!(r),
                    Ok(Err(e)) => json!(format!("error: {e:#}")),
                    Err(e) => json!(format!("panic: {}", crate::panic_msg(e))),
                };
                o.evals += 1;
                o.trace.push(json!({"ev":"eval","nt": tables.non_terminals[nti], "window": window,
                                    "text": text, "res": res}));
            }
        }
    }
    let chosen: Vec<Vec<String>> = pick(&sentences, sample, 1)
        .into_iter()
        .chain(pick(&nonsentences, sample.div_ceil(2), 2))
        .collect();
    for w in chosen {
        let input: Vec<String> = w.iter().map(|t| ty_of(t)).collect();
        let mut first = true;
        for variant in 0..3u64 {
            let (text, offs) = if variant == 0 { plain(&w) } else { decorate(&w, h0 ^ (variant * 7919)) };
            let variants: Vec<(RunOpts, bool)> = vec![
                (RunOpts::default(), true),
                (RunOpts { recovery: false, ..Default::default() }, false),
                (RunOpts { trim: true, ..Default::default() }, false),
                (RunOpts { max_depth: Some(1 + (variant as usize)), ..Default::default() }, false),
                (RunOpts { max_depth: Some(0), trim: true, recovery: false, ..Default::default() }, false),
                (RunOpts { max_depth: Some(64), ..Default::default() }, false),
            ];
            for (ro, is_ref) in variants {
                let evs = run_safe(&tables, &text, ro);
                o.trace.push(json!({"ev":"run","input": input, "offs": offs, "text": text, "len": text.len(),
                                    "opts": opts_json(&ro), "ref": is_ref, "newinput": first,
                                    "ok": verdict(&evs).0}));
                first = false;
                o.trace.extend(evs);
                o.evals += 1;
            }
        }
    }
    o
}
