//! C32 — replays KTuple.tla's operation sequences on the packed `Terminals` representation (and the
//! `TerminalString` wrapper) and compares the observations after every step.
use crate::Outcome;
use parol::analysis::compiled_terminal::{CompiledTerminal, EPS};
use parol::analysis::k_tuple::{TerminalString, Terminals};
use serde_json::{Value, json};

fn den(t: &Terminals) -> Vec<Value> {
    t.iter().map(|x| if x == EPS { json!(9999) } else { json!(x) }).collect()
}

pub fn replay(v: &Value) -> Outcome {
    let mut o = Outcome::default();
    let k = v["k"].as_u64().unwrap() as usize;
    let ops = v["ops"].as_array().unwrap();
    let nregs = v["eq"].as_array().unwrap().len();
    // every bit width from the smallest that holds the terminals used up to 12 bits, at the
    // boundaries 2^b - 2, 2^b - 1
    let maxt = ops.iter().filter(|o| o["op"] == "push").map(|o| o["arg"].as_u64().unwrap()).max().unwrap_or(1) as usize;
    let mut maxes: Vec<usize> = vec![maxt.max(1)];
    for b in 2..=11u32 {
        for m in [(1usize << b) - 2, (1usize << b) - 1] {
            if m >= maxt.max(1) && !maxes.contains(&m) {
                maxes.push(m);
            }
        }
    }
    for max_terminal_index in maxes {
        let mut regs: Vec<Terminals> = vec![Terminals::new(max_terminal_index); nregs];
        let mut wregs: Vec<TerminalString> = vec![TerminalString::Incomplete(Terminals::new(max_terminal_index)); nregs];
        for (i, op) in ops.iter().enumerate() {
            let r = op["r"].as_u64().unwrap() as usize - 1;
            let arg = op["arg"].as_u64().unwrap() as usize;
            let name = op["op"].as_str().unwrap();
            match name {
                "new" => regs[r] = Terminals::new(max_terminal_index),
                "eps" => regs[r] = Terminals::eps(max_terminal_index),
                "end" => regs[r] = Terminals::end(max_terminal_index),
                "push" => {
                    let _ = regs[r].push(CompiledTerminal(arg as u16));
                }
                "kconcat" => {
                    let other = regs[arg - 1];
                    regs[r] = regs[r].k_concat(&other, k);
                }
                "of" => regs[r] = Terminals::of(k, regs[r]),
                _ => panic!("unknown op"),
            }
            // the same operation on the TerminalString wrapper where it exists
            match name {
                "new" => wregs[r] = TerminalString::Incomplete(Terminals::new(max_terminal_index)),
                "eps" => wregs[r] = TerminalString::Incomplete(Terminals::eps(max_terminal_index)),
                "end" => wregs[r] = TerminalString::Incomplete(Terminals::end(max_terminal_index)),
                _ => wregs[r] = TerminalString::Incomplete(regs[r]),
            }
            o.evals += 1;
            let t = &regs[r];
            let e = &op["obs"];
            let what = |f: &str| format!("{f}/step{i}:{name}/max={max_terminal_index}");
            if json!(den(t)) != e["den"] {
                o.mismatch(&what("iter"), e["den"].clone(), json!(den(t)));
            }
            let gets: Vec<Value> = (0..t.len()).map(|j| t.get(j).map(|c| if c.0 == EPS { json!(9999) } else { json!(c.0) }).unwrap_or(Value::Null)).collect();
            if json!(gets) != e["den"] {
                o.mismatch(&what("get"), e["den"].clone(), json!(gets));
            }
            if t.get(t.len()).is_some() {
                o.mismatch(&what("get-past-end"), json!(null), json!("Some"));
            }
            for (f, a, x) in [
                ("len", json!(t.len()), &e["len"]),
                ("is_eps", json!(t.is_eps()), &e["is_eps"]),
                ("is_empty", json!(t.is_empty()), &e["is_empty"]),
                ("is_k_complete", json!(t.is_k_complete(k)), &e["complete"]),
                ("k_len", json!(t.k_len(k)), &e["k_len"]),
                ("wrapper.is_eps", json!(wregs[r].is_eps()), &e["is_eps"]),
                ("wrapper.is_complete", json!(wregs[r].is_complete(k)), &e["complete"]),
                ("wrapper.len", json!(wregs[r].len()), &e["len"]),
            ] {
                if a != *x {
                    o.mismatch(&what(f), x.clone(), a);
                }
            }
            if e["is_eps"] == json!(true) {
                o.tag("epsilon");
            }
            if e["complete"] == json!(true) {
                o.tag("k_complete");
            }
        }
        // equality and ordering on the final registers
        for a in 0..nregs {
            for b in 0..nregs {
                let exp_eq = v["eq"][a][b].as_bool().unwrap();
                if (regs[a] == regs[b]) != exp_eq {
                    o.mismatch(&format!("eq/r{a}=r{b}/max={max_terminal_index}"), json!(exp_eq), json!(regs[a] == regs[b]));
                }
                let c = regs[a].cmp(&regs[b]);
                if (c == std::cmp::Ordering::Equal) != exp_eq || c != regs[b].cmp(&regs[a]).reverse() {
                    o.mismatch(&format!("cmp/r{a},r{b}/max={max_terminal_index}"), json!({"equal": exp_eq, "antisymmetric": true}), json!(format!("{c:?}")));
                }
                for d in 0..nregs {
                    use std::cmp::Ordering::Less;
                    if regs[a].cmp(&regs[b]) == Less && regs[b].cmp(&regs[d]) == Less && regs[a].cmp(&regs[d]) != Less {
                        o.mismatch(&format!("cmp-transitive/r{a},r{b},r{d}"), json!("Less"), json!(format!("{:?}", regs[a].cmp(&regs[d]))));
                    }
                }
            }
        }
    }
    o.tag("any");
    o
}
