//! C21 (and the table half of C18): three views of one generated parser - the tables read back
//! from the generated source, the export model, the analysis results - recorded for Tables.tla.
use crate::Outcome;
use crate::dynrt::{self, Algo, Built, PTables, Tables};
use parol::{Symbol, Terminal};
use parol_runtime::lr_parser::LRAction;
use parol_runtime::parser::ParseType;
use serde_json::{Value, json};

fn act_json(a: &LRAction) -> Value {
    match a {
        LRAction::Shift(s) => json!(["s", s]),
        LRAction::Reduce(n, p) => json!(["r", n, p]),
        LRAction::Accept => json!(["acc"]),
    }
}

pub fn src_view(t: &Tables) -> Value {
    let mut v = json!({
        "terminal_names": t.terminal_names,
        "non_terminals": t.non_terminals,
        "skip": t.skip_tokens,
        "maxk": t.max_k,
    });
    let err = t.terminal_names.len() - 1;
    let utoks: Vec<Value> = t.scanner.macro_modes.iter().map(|m| {
        json!(m.tokens.iter().filter(|(_, ty, _)| *ty >= 5 && *ty < err).map(|(p, ty, la)| json!([p, ty, la.as_ref().map(|(pos, s)| json!([pos, s]))])).collect::<Vec<_>>())
    }).collect();
    let atoks: Vec<Value> = t.scanner.macro_modes.iter().map(|m| {
        json!(m.tokens.iter().filter(|(_, ty, _)| *ty < 5 || *ty >= err).map(|(p, ty, _)| json!([p, ty])).collect::<Vec<_>>())
    }).collect();
    let names: Vec<&str> = t.scanner.macro_modes.iter().map(|m| m.name.as_str()).collect();
    let strans: Vec<Value> = t.scanner.macro_modes.iter().map(|m| {
        json!(m.transitions.iter().map(|(ty, act, target)| {
            let tgt = target.as_ref().and_then(|n| names.iter().position(|x| x == n));
            json!([ty, act, tgt])
        }).collect::<Vec<_>>())
    }).collect();
    v["utoks"] = json!(utoks);
    v["atoks"] = json!(atoks);
    v["strans"] = json!(strans);
    match &t.p {
        PTables::LL(ll) => {
            v["start"] = json!(ll.start);
            v["prods"] = json!(ll.productions.iter().map(|p| {
                json!([p.lhs, p.production.iter().rev().map(|s| match s {
                    ParseType::N(n) => json!(["n", n]),
                    ParseType::T(x) => json!(["t", x]),
                    ParseType::E(e) => json!(["e", e]),
                }).collect::<Vec<_>>()])
            }).collect::<Vec<_>>());
            v["plens"] = json!(ll.productions.iter().map(|p| json!([p.lhs, p.production.len()])).collect::<Vec<_>>());
            v["auto"] = json!(ll.automata.iter().map(|a| json!([a.prod0, a.k, a.transitions.iter().map(|t| json!([t.0, t.1, t.2, t.3])).collect::<Vec<_>>()])).collect::<Vec<_>>());
            v["autok"] = json!(ll.automata.iter().map(|a| json!([a.prod0, a.k])).collect::<Vec<_>>());
        }
        PTables::LR(lr) => {
            v["start"] = json!(lr.start);
            v["plens"] = json!(lr.productions.iter().map(|p| json!([p.lhs, p.len])).collect::<Vec<_>>());
            v["lr"] = json!(lr.table.states.iter().map(|s| {
                let mut a: Vec<(u16, Value)> = s.actions.iter().map(|(t, ai)| (*t, lr.table.actions.get(*ai).map(act_json).unwrap_or(json!(["bad-action-index", ai])))).collect();
                a.sort_by_key(|x| x.0);
                let mut g: Vec<(usize, usize)> = s.gotos.to_vec();
                g.sort();
                json!({"a": a.iter().map(|(t, x)| json!([t, x])).collect::<Vec<_>>(), "g": g.iter().map(|(n, s)| json!([n, s])).collect::<Vec<_>>()})
            }).collect::<Vec<_>>());
        }
    }
    v
}

pub fn exp_view(b: &Built) -> anyhow::Result<Value> {
    let m = match &b.algo {
        Algo::LL(d) => parol::generate_parser_export_model(&b.gc, d)?,
        Algo::LR(t, _) => parol::generate_lalr1_parser_export_model(&b.gc, t)?,
    };
    let m = serde_json::to_value(&m)?;
    let mut v = json!({"non_terminals": m["non_terminal_names"], "start": m["start_symbol_index"]});
    let sym = |s: &Value| -> Value {
        if let Some(n) = s.get("NonTerminal") { json!(["n", n]) } else { json!(["t", s["Terminal"]["index"]]) }
    };
    let prods = m["productions"].as_array().unwrap();
    v["plens"] = json!(prods.iter().map(|p| json!([p["lhs_index"], p["rhs"].as_array().unwrap().len()])).collect::<Vec<_>>());
    if m["algorithm"] == "Llk" {
        v["prods"] = json!(prods.iter().map(|p| json!([p["lhs_index"], p["rhs"].as_array().unwrap().iter().map(sym).collect::<Vec<_>>()])).collect::<Vec<_>>());
        let autos = m["lookahead_automata"].as_array().unwrap();
        v["auto"] = json!(autos.iter().map(|a| json!([a["prod0"], a["k"], a["transitions"].as_array().unwrap().iter().map(|t| json!([t["from_state"], t["term"], t["to_state"], t["prod_num"]])).collect::<Vec<_>>()])).collect::<Vec<_>>());
        v["autok"] = json!(autos.iter().map(|a| json!([a["prod0"], a["k"]])).collect::<Vec<_>>());
    } else {
        let t = &m["lalr_parse_table"];
        let actions = t["actions"].as_array().unwrap();
        let act = |a: &Value| -> Value {
            if let Some(s) = a.get("Shift") { json!(["s", s]) }
            else if let Some(r) = a.get("Reduce") { json!(["r", r.get("non_terminal_index").or(r.get(0)).cloned().unwrap_or(Value::Null), r.get("production_index").or(r.get(1)).cloned().unwrap_or(Value::Null)]) }
            else { json!(["acc"]) }
        };
        v["lr"] = json!(t["states"].as_array().unwrap().iter().map(|s| {
            let mut a: Vec<(u64, Value)> = s["actions"].as_array().unwrap().iter().map(|x| (x[0].as_u64().unwrap(), actions.get(x[1].as_u64().unwrap() as usize).map(act).unwrap_or(json!(["bad-action-index"])))).collect();
            a.sort_by_key(|x| x.0);
            let mut g: Vec<(u64, u64)> = s["gotos"].as_array().unwrap().iter().map(|x| (x[0].as_u64().unwrap(), x[1].as_u64().unwrap())).collect();
            g.sort();
            json!({"a": a.iter().map(|(t, x)| json!([t, x])).collect::<Vec<_>>(), "g": g.iter().map(|(n, s)| json!([n, s])).collect::<Vec<_>>()})
        }).collect::<Vec<_>>());
    }
    let sc = &m["scanner"];
    let states = sc["scanner_states"].as_array().unwrap();
    // five built-in token types, the user terminals and the error token
    v["nterm"] = json!(5 + sc["terminals"].as_array().unwrap().len() + 1);
    v["skip"] = json!(states.iter().map(|s| s["skip_tokens"].clone()).collect::<Vec<_>>());
    v["utoks"] = json!((0..states.len()).map(|i| {
        json!(sc["terminals"].as_array().unwrap().iter().filter(|t| t["scanner_states"].as_array().unwrap().contains(&json!(i))).map(|t| {
            let la = if t["lookahead"].is_null() { Value::Null } else { json!([t["lookahead"]["is_positive"], t["lookahead"]["expanded_pattern"]]) };
            json!([t["expanded_pattern"], t["index"], la])
        }).collect::<Vec<_>>())
    }).collect::<Vec<_>>());
    v["strans"] = json!(states.iter().map(|s| {
        json!(s["transitions"].as_array().unwrap().iter().map(|t| json!([t["terminal_index"], t["kind"].as_str().unwrap().to_lowercase(), t["target_scanner_state"]])).collect::<Vec<_>>())
    }).collect::<Vec<_>>());
    Ok(v)
}

pub fn ana_view(b: &Built) -> anyhow::Result<Value> {
    let cfg = &b.gc.cfg;
    let nts: Vec<String> = cfg.get_non_terminal_set().into_iter().collect();
    let names = parol::generators::generate_terminal_names(&b.gc);
    let ti = cfg.get_terminal_index_function();
    use parol::grammar::cfg::TerminalIndexFn;
    let mut v = json!({"terminal_names": names, "non_terminals": nts,
                       "start": nts.iter().position(|n| *n == cfg.st),
                       "maxk": b.gc.lookahead_size});
    let prods: Vec<Value> = cfg.pr.iter().map(|p| {
        json!([nts.iter().position(|n| n == p.get_n_str()), p.get_r().iter().map(|s| match s {
            Symbol::N(n, ..) => json!(["n", nts.iter().position(|x| x == n)]),
            Symbol::T(Terminal::Trm(t, k, _, _, _, _, l)) => json!(["t", ti.terminal_index(t, *k, l)]),
            _ => json!(["?"]),
        }).collect::<Vec<_>>()])
    }).collect();
    v["plens"] = json!(cfg.pr.iter().map(|p| json!([nts.iter().position(|n| n == p.get_n_str()), p.len()])).collect::<Vec<_>>());
    match &b.algo {
        Algo::LL(d) => {
            v["prods"] = json!(prods);
            v["autok"] = json!(nts.iter().map(|n| { let a = &d[n]; json!([a.states[0].prod_num, a.k]) }).collect::<Vec<_>>());
        }
        Algo::LR(t, _) => {
            v["lr"] = json!(t.states.iter().map(|s| {
                json!({"a": s.actions.iter().map(|(t, a)| json!([t, match a {
                            parol::LRAction::Shift(s) => json!(["s", s]),
                            parol::LRAction::Reduce(n, p) => json!(["r", n, p]),
                            parol::LRAction::Accept => json!(["acc"]),
                        }])).collect::<Vec<_>>(),
                       "g": s.gotos.iter().map(|(n, s)| json!([n, s])).collect::<Vec<_>>()})
            }).collect::<Vec<_>>());
        }
    }
    let err = names.len() - 1;
    let mut utoks = vec![];
    let mut atoks = vec![];
    let mut strans = vec![];
    let mut skip = vec![];
    for sc in &b.gc.scanner_configurations {
        let (maps, trans) = sc.generate_build_information(&b.gc, &names)?;
        utoks.push(json!(maps.iter().filter(|m| (m.1 as usize) >= 5 && (m.1 as usize) < err).map(|m| json!([m.0, m.1, m.2.as_ref().map(|(p, s)| json!([p, s]))])).collect::<Vec<_>>()));
        atoks.push(json!(maps.iter().filter(|m| (m.1 as usize) < 5 || (m.1 as usize) >= err).map(|m| json!([m.0, m.1])).collect::<Vec<_>>()));
        strans.push(json!(trans.iter().map(|(t, sw)| {
            use parol::parser::parol_grammar::ScannerStateSwitch as S;
            match sw {
                S::Switch(n, _) => json!([t, "enter", b.gc.scanner_configurations.iter().position(|c| c.scanner_name == *n)]),
                S::SwitchPush(n, _) => json!([t, "push", b.gc.scanner_configurations.iter().position(|c| c.scanner_name == *n)]),
                S::SwitchPop(_) => json!([t, "pop", Value::Null]),
            }
        }).collect::<Vec<_>>()));
        skip.push(json!(sc.skip_tokens));
    }
    v["utoks"] = json!(utoks);
    v["atoks"] = json!(atoks);
    v["strans"] = json!(strans);
    v["skip"] = json!(skip);
    Ok(v)
}

/// vector: {"par": text, "id": ..}
pub fn replay(v: &Value) -> Outcome {
    let mut o = Outcome::default();
    let par_owned: String = if let Some(p) = v["par"].as_str() {
        p.to_string()
    } else if v.get("g").is_some() {
        let g: crate::gram::JG = serde_json::from_value(v["g"].clone()).expect("grammar");
        let ty = if v["lr"].as_bool().unwrap_or(false) { parol::parser::parol_grammar::GrammarType::LALR1 } else { parol::parser::parol_grammar::GrammarType::LLK };
        g.to_par(ty, crate::checks::llrun::DECLS)
    } else {
        crate::checks::scan::render_par(&v["cfgdef"], v["lr"].as_bool().unwrap_or(false))
    };
    let par = par_owned.as_str();
    let built = match std::panic::catch_unwind(std::panic::AssertUnwindSafe(|| dynrt::build(par, 5))) {
        Ok(Ok(b)) => b,
        Ok(Err(_)) => {
            o.tag("rejected");
            return o;
        }
        Err(_) => {
            // a crash of the pipeline is C26's subject; this property speaks about accepted grammars
            o.tag("pipeline_panic(C26)");
            return o;
        }
    };
    o.tag("accepted");
    let tables = match dynrt::tables_from_source(&built.parser_source) {
        Ok(t) => t,
        Err(e) => {
            // repository grammars that are only test data for the front end may contain terminals
            // that are no valid regular expressions ("+", "(*"); they never get a scanner
            if v.get("par").is_some() && format!("{e:#}").contains("regex parse error") {
                o.tag("corpus_grammar_with_invalid_regex");
            } else {
                o.mismatch("generated-source", json!("readable tables"), json!(format!("{e:#}")));
            }
            return o;
        }
    };
    let (ev, av) = match (exp_view(&built), ana_view(&built)) {
        (Ok(e), Ok(a)) => (e, a),
        (e, a) => {
            o.mismatch("views", json!("export model and analysis view"), json!(format!("{:?} {:?}", e.err(), a.err())));
            return o;
        }
    };
    o.evals += 1;
    if matches!(tables.p, PTables::LR(_)) {
        o.tag("LR");
    }
    if tables.scanner.macro_modes.len() > 1 {
        o.tag("multi_mode");
    }
    o.trace.push(json!({"ev":"tables","id": v["id"], "src": src_view(&tables), "exp": ev, "ana": av, "vec": {"par": par, "id": v["id"]}}));
    o
}
