//! `pv gen <grammar.par> <max_k>` — runs parol end to end in THIS process and prints one JSON line
//! with the generated artefacts (C24 runs it in several processes and compares; C22/C23 use the files).
use crate::dynrt;
use anyhow::Result;
use serde_json::json;

pub fn cmd_gen(par_file: &str, args: &[String]) -> Result<()> {
    let text = std::fs::read_to_string(par_file)?;
    let max_k = args.first().and_then(|a| a.parse().ok()).unwrap_or(5usize);
    let out = match std::panic::catch_unwind(|| dynrt::build(&text, max_k)) {
        Ok(Ok(b)) => {
            let expanded = parol::render_par_string(&b.gc, true).unwrap_or_else(|e| format!("render error: {e}"));
            let tr = crate::checks::names::trait_source(&b).unwrap_or_else(|e| format!("trait error: {e}"));
            json!({"status": "ok", "parser": b.parser_source, "trait": tr, "expanded": expanded})
        }
        Ok(Err(e)) => json!({"status": format!("rejected at {}", e.stage.name()), "error": format!("{:#}", e.err)}),
        Err(_) => json!({"status": "panic"}),
    };
    println!("PVGEN {out}");
    Ok(())
}
