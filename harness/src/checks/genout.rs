//! `pv gen <grammar.par> <max_k>` — runs parol end to end in THIS process and prints one JSON line
//! with the generated artefacts (C24 runs it in several processes and compares; C22/C23 use the files).
use crate::dynrt;
use anyhow::Result;
use serde_json::json;

pub fn cmd_gen(par_file: &str, args: &[String]) -> Result<()> {
    let text = std::fs::read_to_string(par_file)?;
    let max_k = args.first().and_then(|a| a.parse().ok()).unwrap_or(5usize);
    let out = match std::panic::catch_unwind(|| dynrt::build(&text, max_k)) {
        Ok(Ok(b)) => {
            let expanded = parol::render_par_string(&b.gc, true).unwrap_or_else(|e| format!("render error: {e}"));
            let tr = crate::checks::names::trait_source(&b).unwrap_or_else(|e| format!("trait error: {e}"));
            json!({"status": "ok", "parser": b.parser_source, "trait": tr, "expanded": expanded})
        }
        Ok(Err(e)) => json!({"status": format!("rejected at {}", e.stage.name()), "error": format!("{:#}", e.err)}),
        Err(_) => json!({"status": "panic"}),
    };
    println!("PVGEN {out}");
    Ok(())
}

/// `pv builder <grammar.par> <outdir> <UserType> <module> [boxed] [range] [trim] [norec] [k=N]`
/// — the path a user's build.rs takes: parol::build::Builder ... generate_parser().
pub fn cmd_builder(par_file: &str, args: &[String]) -> Result<()> {
    let outdir = &args[0];
    let utype = &args[1];
    let module = &args[2];
    let has = |f: &str| args.iter().any(|a| a == f);
    let k = args.iter().find_map(|a| a.strip_prefix("k=").and_then(|x| x.parse().ok())).unwrap_or(5usize);
    let r = std::panic::catch_unwind(|| {
        let mut b = parol::build::Builder::with_explicit_output_dir(outdir);
        b.grammar_file(par_file)
            .parser_output_file(format!("{module}_parser.rs"))
            .actions_output_file(format!("{module}_trait.rs"))
            .expanded_grammar_output_file(format!("{module}-exp.par"))
            .user_type_name(utype)
            .user_trait_module_name(module);
        let _ = b.max_lookahead(k);
        if has("boxed") {
            b.minimize_boxed_types();
        }
        if has("range") {
            b.range();
        }
        if has("trim") {
            b.trim_parse_tree();
        }
        if has("norec") {
            b.disable_recovery();
        }
        b.generate_parser()
    });
    let out = match r {
        Ok(Ok(())) => json!({"status": "ok"}),
        Ok(Err(e)) => json!({"status": "rejected", "error": format!("{e:#}")}),
        Err(_) => json!({"status": "panic"}),
    };
    println!("PVGEN {out}");
    Ok(())
}
