//! C27/C28 — oracle side for language-server text transformations (formatting, rename).
//!
//! * `scan_text`: comments and identifier occurrences of a PAR text, from running the real run-time
//!   parser on parol's own grammar (parol.par through the dynamic runtime) — independent of parol-ls.
//! * `model2`: the untransformed grammar description (ParolGrammar) as a flat structure in which
//!   every non-terminal and scanner-state name is an explicit field, so that LsText.tla can apply a
//!   renaming to it.
//! * replay kind `lsx`: vector {op, a, b, ...} → one `lsx` event with both models.
use crate::Outcome;
use crate::dynrt;
use parol::ParolGrammar;
use parol::parser::parol_grammar::{Alternations, Factor, ScannerStateSwitch};
use serde_json::{Value, json};

thread_local! {
    static PAROL: &'static dynrt::Tables = {
        let par = std::fs::read_to_string(format!("{}/crates/parol/src/parser/parol.par", std::env::var("PV_REPO").unwrap_or("/repo".into()))).expect("parol.par");
        let built = match dynrt::build(&par, 5) { Ok(b) => b, Err(e) => panic!("parol.par does not build: {:#}", e.err) };
        Box::leak(Box::new(dynrt::tables_from_source(&built.parser_source).expect("parol.par tables")))
    };
}

/// (comments in order, identifier occurrences [{text, start, path}]) or None if parol's grammar does
/// not accept the text
pub fn scan_text(text: &str) -> Option<(Vec<String>, Vec<Value>, Vec<Value>)> {
    let evs = PAROL.with(|t| dynrt::run(t, text, dynrt::RunOpts { recovery: false, ..Default::default() }));
    if evs.last().map(|e| e["ok"] != json!(true)).unwrap_or(true) {
        return None;
    }
    let mut comments = vec![];
    let mut occ = vec![];
    let mut stack: Vec<String> = vec![];
    let mut prev = String::new();
    let mut gaps: Vec<Value> = vec![];
    for e in &evs {
        match e["ev"].as_str().unwrap_or("") {
            "open" => stack.push(e["nt"].as_str().unwrap().to_string()),
            "close" => {
                stack.pop();
            }
            "comment" => comments.push(e["text"].as_str().unwrap().trim_end().to_string()),
            "tok" if e["skip"] != json!(true) => {
                if stack.last().map(|s| s == "Identifier").unwrap_or(false) && occ.last().map(|l: &Value| l["start"] != e["s"]).unwrap_or(true) {
                    occ.push(json!({"text": e["text"], "start": e["s"], "path": &stack[..stack.len() - 1], "prev": prev}));
                }
                if gaps.last().map(|l: &Value| l["s"] != e["s"]).unwrap_or(true) {
                    gaps.push(json!({"s": e["s"], "tok": e["text"], "ctx": stack.last()}));
                }
                prev = e["text"].as_str().unwrap_or("").to_string();
            }
            _ => {}
        }
    }
    Some((comments, occ, gaps))
}

fn alts_tokens(a: &Alternations, names: &[String], out: &mut Vec<Value>) {
    for (i, alt) in a.0.iter().enumerate() {
        if i > 0 {
            out.push(json!({"k":"|","s":"","a":"","st":[]}));
        }
        if format!("{:?}", alt.1) != "None" {
            out.push(json!({"k":"attr","s":format!("{:?}", alt.1),"a":"","st":[]}));
        }
        for f in &alt.0 {
            match f {
                Factor::Group(x) | Factor::Repeat(x) | Factor::Optional(x) => {
                    let (o, c) = match f {
                        Factor::Group(_) => ("(", ")"),
                        Factor::Repeat(_) => ("{", "}"),
                        _ => ("[", "]"),
                    };
                    out.push(json!({"k":o,"s":"","a":"","st":[]}));
                    alts_tokens(x, names, out);
                    out.push(json!({"k":c,"s":"","a":"","st":[]}));
                }
                Factor::Terminal(t, k, st, a, u, m, l) => out.push(json!({
                    "k":"t","s":t,"a":format!("{k:?} {a:?} type={u:?} member={m:?} la={l:?}"),
                    "st": st.iter().map(|i| names.get(*i).cloned().unwrap_or(format!("#{i}"))).collect::<Vec<_>>()})),
                Factor::NonTerminal(n, a, u, m) => out.push(json!({"k":"nt","s":n,"a":format!("{a:?} type={u:?} member={m:?}"),"st":[]})),
                Factor::Identifier(n) => out.push(json!({"k":"id","s":n,"a":"","st":[]})),
                other => out.push(json!({"k":"other","s":format!("{other:?}"),"a":"","st":[]})),
            }
        }
    }
}

pub fn model2(text: &str) -> Result<Value, String> {
    let t = text.to_string();
    match std::panic::catch_unwind(move || {
        let mut g = ParolGrammar::new();
        match parol::parse(&t, "verif.par", &mut g) {
            Ok(_) => Ok(model_of(&g)),
            Err(e) => Err(format!("{e:#}").chars().take(300).collect::<String>()),
        }
    }) {
        Ok(r) => r,
        Err(_) => Err("panic".into()),
    }
}

fn model_of(g: &ParolGrammar<'_>) -> Value {
    let names: Vec<String> = g.scanner_configurations.iter().map(|s| s.name.clone()).collect();
    json!({
        "start": g.start_symbol,
        "hdr": format!("{:?} title={:?} comment={:?} t_type={:?} user_types={:?}", g.grammar_type, g.title, g.comment, g.t_type_def, g.user_type_definitions),
        "nt_types": g.nt_type_definitions.iter().map(|(n, t)| json!([n, format!("{t:?}")])).collect::<Vec<_>>(),
        "scanners": g.scanner_configurations.iter().map(|s| json!({
            "name": s.name,
            "a": format!("lc={:?} bc={:?} nl_off={} ws_off={} unmatched={}", s.line_comments, s.block_comments, s.auto_newline_off, s.auto_ws_off, s.allow_unmatched),
            "skip": s.skip.iter().map(|t| t.text().to_string()).collect::<Vec<_>>(),
            "trans": s.transitions.iter().map(|(t, sw)| match sw {
                ScannerStateSwitch::Switch(n, _) => json!([t.text(), "enter", n]),
                ScannerStateSwitch::SwitchPush(n, _) => json!([t.text(), "push", n]),
                ScannerStateSwitch::SwitchPop(_) => json!([t.text(), "pop", ""]),
            }).collect::<Vec<_>>(),
        })).collect::<Vec<_>>(),
        "prods": g.productions.iter().map(|p| {
            let mut toks = vec![];
            alts_tokens(&p.rhs, &names, &mut toks);
            json!({"lhs": p.lhs, "rhs": toks})
        }).collect::<Vec<_>>(),
    })
}

/// `lsx` vectors: {op: "scan", id, text}                        → event with comments + occurrences
///               {op: "format"|"renameNT"|"renameState", id, a, b, b2?, old?, new?, ...}
pub fn replay(v: &Value) -> Outcome {
    let mut o = Outcome::default();
    o.evals += 1;
    let op = v["op"].as_str().unwrap_or("");
    if op == "scan" {
        let text = v["text"].as_str().unwrap_or("");
        match (scan_text(text), model2(text)) {
            (Some((c, occ, gaps)), Ok(m)) => {
                o.tag("valid");
                o.trace.push(json!({"ev":"scan","id":v["id"],"comments":c,"occ":occ,"gaps":gaps,"start":m["start"],
                    "nts": m["prods"].as_array().unwrap().iter().map(|p| p["lhs"].clone()).collect::<Vec<_>>(),
                    "states": m["scanners"].as_array().unwrap().iter().map(|s| s["name"].clone()).collect::<Vec<_>>()}));
            }
            _ => o.tag("invalid"),
        }
        return o;
    }
    let a = v["a"].as_str().unwrap_or("");
    let b = v["b"].as_str().unwrap_or("");
    let ma = match model2(a) {
        Ok(m) => m,
        Err(_) => {
            o.tag("invalid_original");
            return o;
        }
    };
    let mb = match model2(b) {
        Ok(m) => m,
        Err(e) => {
            o.trace.push(json!({"ev":"lsx","op":op,"id":v["id"],"accepted":false,"err":e,"info":v["info"]}));
            return o;
        }
    };
    o.tag(match op { "format" => "format", "renameNT" => "renameNT", "renameState" => "renameState", _ => "other" });
    let (ca, cb) = (scan_text(a).map(|x| x.0).unwrap_or_default(), scan_text(b).map(|x| x.0).unwrap_or_default());
    o.trace.push(json!({"ev":"lsx","op":op,"id":v["id"],"accepted":true,"a":ma,"b":mb,"ca":ca,"cb":cb,"cfa":ca.concat(),"cfb":cb.concat(),
        "idem": v["b2"].is_null() || v["b2"] == v["b"], "textok": v["exp"].is_null() || v["exp"] == v["b"], "old": v["old"], "new": v["new"], "info": v["info"]}));
    o
}
