//! C05 (strong-LL(k) decision, minimal k, conflict naming) and C06 (FIRST_k/FOLLOW_k in any
//! request order) against the vectors of Gen_LL.tla.
use crate::Outcome;
use crate::gram::{JG, sorted};
use parol::analysis::{FirstCache, FollowCache, decidable, explain_conflicts};
use parol::{GrammarAnalysisError, GrammarConfig, KTuples, calculate_lookahead_dfas};
use serde_json::{Value, json};
use std::collections::BTreeSet;
use std::sync::OnceLock;

pub type TSet = BTreeSet<Vec<String>>;

/// JSON array of arrays of strings -> set of sequences
pub fn tset(v: &Value) -> TSet {
    v.as_array()
        .map(|a| {
            a.iter()
                .map(|s| {
                    s.as_array()
                        .map(|x| x.iter().filter_map(|y| y.as_str().map(String::from)).collect())
                        .unwrap_or_default()
                })
                .collect()
        })
        .unwrap_or_default()
}

/// Projection KTuples -> set of sequences of terminal names (ε -> [], end of input -> "$")
pub fn project(kt: &KTuples, tnames: &[String]) -> TSet {
    kt.sorted()
        .iter()
        .map(|t| {
            if t.is_eps() {
                vec![]
            } else {
                t.terminals()
                    .iter()
                    .map(|ti| {
                        if ti == 0 {
                            "$".to_string()
                        } else if ti >= 5 && ((ti - 5) as usize) < tnames.len() {
                            tnames[(ti - 5) as usize].clone()
                        } else {
                            format!("?{ti}")
                        }
                    })
                    .collect()
            }
        })
        .collect()
}

pub struct Ctx {
    pub g: JG,
    pub gc: GrammarConfig,
    pub tnames: Vec<String>,
    pub nts: Vec<String>,
    /// harness production index -> index in the vector's production list
    pub pmap: Vec<usize>,
}

pub fn ctx(g0: &JG, reversed: bool, k: usize) -> Ctx {
    let g = if reversed { g0.reversed() } else { g0.clone() };
    let cfg = g.to_cfg();
    let tnames = cfg
        .get_ordered_terminals()
        .iter()
        .map(|(t, ..)| t.to_string())
        .collect();
    let nts = cfg.get_non_terminal_set().into_iter().collect();
    let n = g.prods.len();
    let pmap = (0..n).map(|i| if reversed { n - 1 - i } else { i }).collect();
    Ctx {
        g,
        gc: GrammarConfig::new(cfg, k),
        tnames,
        nts,
        pmap,
    }
}

fn set_json(s: &TSet) -> Value {
    json!(s.iter().collect::<Vec<_>>())
}

pub fn replay_c05(v: &Value) -> Outcome {
    let mut o = Outcome::default();
    let g: JG = serde_json::from_value(v["g"].clone()).expect("grammar");
    let maxk = v["K"].as_u64().unwrap() as usize;
    let mink = |nt: &str| v["mink"][nt].as_u64().unwrap() as usize;
    if g.nts.iter().any(|n| mink(n) >= 2) {
        o.tag("needs_k>=2");
    }
    if g.nts.iter().any(|n| mink(n) > maxk) {
        o.tag("not_LL(maxK)");
    }
    if g.nts.iter().any(|n| mink(n) == 1) {
        o.tag("needs_k=1");
    }
    for reversed in [false, true] {
        let ord = if reversed { "reversed" } else { "given" };
        for k in 1..=maxk {
            let c = ctx(&g, reversed, k);
            let exp_ok = v["strongll"][k - 1].as_bool().unwrap();
            o.evals += 1;
            match calculate_lookahead_dfas(&c.gc, k) {
                Ok(dfas) => {
                    if !exp_ok {
                        o.mismatch(
                            &format!("accept/K={k}/{ord}"),
                            json!({"rejected_conflicting": v["conflicts"][k-1]}),
                            json!("accepted"),
                        );
                    }
                    for nt in &c.nts {
                        let e = mink(nt);
                        let a = dfas.get(nt).map(|d| d.k);
                        if e <= k && a != Some(e) {
                            o.mismatch(&format!("dfa.k/{nt}/K={k}/{ord}"), json!(e), json!(a));
                        }
                    }
                }
                Err(e) => {
                    let is_maxk = matches!(
                        e.downcast_ref::<GrammarAnalysisError>(),
                        Some(GrammarAnalysisError::MaxKExceeded { .. })
                    );
                    if exp_ok || !is_maxk {
                        o.mismatch(
                            &format!("accept/K={k}/{ord}"),
                            json!(if exp_ok { "accepted" } else { "MaxKExceeded" }),
                            json!(format!("{e:#}")),
                        );
                    }
                }
            }
            // per non-terminal decision with fresh caches
            let fc = FirstCache::new();
            let foc = FollowCache::new();
            let mut failing = vec![];
            for nt in &c.nts {
                let e = mink(nt);
                o.evals += 1;
                match decidable(&c.gc, nt, k, &fc, &foc) {
                    Ok(a) => {
                        if e > k || a != e {
                            o.mismatch(
                                &format!("decidable/{nt}/K={k}/{ord}"),
                                if e > k { json!("undecidable") } else { json!(e) },
                                json!(a),
                            );
                        }
                    }
                    Err(_) => {
                        failing.push(nt.clone());
                        if e <= k {
                            o.mismatch(
                                &format!("decidable/{nt}/K={k}/{ord}"),
                                json!(e),
                                json!("undecidable"),
                            );
                        }
                    }
                }
            }
            // a rejected grammar names non-terminals that really conflict at K
            let exp_conf = sorted(
                v["conflicts"][k - 1]
                    .as_array()
                    .unwrap()
                    .iter()
                    .map(|x| x.as_str().unwrap().to_string())
                    .collect(),
            );
            if sorted(failing.clone()) != exp_conf {
                o.mismatch(
                    &format!("conflicting-nts/K={k}/{ord}"),
                    json!(exp_conf),
                    json!(failing),
                );
            }
            for nt in &c.nts {
                let fc = FirstCache::new();
                let foc = FollowCache::new();
                o.evals += 1;
                match explain_conflicts(&c.gc, nt, k, &fc, &foc) {
                    Ok(cs) => {
                        if cs.is_empty() == exp_conf.contains(nt) {
                            o.mismatch(
                                &format!("explain/{nt}/K={k}/{ord}"),
                                json!({"conflicting": exp_conf.contains(nt)}),
                                json!({"tuples": cs.len()}),
                            );
                        }
                        for (p1, _, p2, _) in cs {
                            let (v1, v2) = (c.pmap[p1], c.pmap[p2]);
                            let l1 = tset(&v["la"][k - 1][v1]);
                            let l2 = tset(&v["la"][k - 1][v2]);
                            let same_nt = c.g.prods[p1].lhs == *nt && c.g.prods[p2].lhs == *nt;
                            if !same_nt || p1 == p2 || l1.is_disjoint(&l2) {
                                o.mismatch(
                                    &format!("explain-pair/{nt}/K={k}/{ord}"),
                                    json!("two productions of the non-terminal with overlapping lookahead sets"),
                                    json!({"p1": p1, "p2": p2, "la1": set_json(&l1), "la2": set_json(&l2)}),
                                );
                            }
                        }
                    }
                    Err(e) => o.mismatch(
                        &format!("explain/{nt}/K={k}/{ord}"),
                        json!("Ok"),
                        json!(format!("{e:#}")),
                    ),
                }
            }
        }
    }
    o
}

// ------------------------------------------------------------------------------------------------
// C06
// ------------------------------------------------------------------------------------------------

/// request orders produced by the Cache machine of Solvers.tla ([["first",2],["follow",0],..])
fn orders() -> &'static Vec<Vec<(String, usize)>> {
    static O: OnceLock<Vec<Vec<(String, usize)>>> = OnceLock::new();
    O.get_or_init(|| {
        let p = std::env::var("PV_ORDERS").expect("PV_ORDERS not set");
        let v: Vec<Vec<(String, usize)>> =
            serde_json::from_str(&std::fs::read_to_string(p).expect("orders file")).expect("orders json");
        v
    })
}

fn hash(v: &Value) -> u64 {
    use std::hash::{Hash, Hasher};
    let mut h = std::collections::hash_map::DefaultHasher::new();
    v.to_string().hash(&mut h);
    h.finish()
}

pub fn replay_c06(v: &Value) -> Outcome {
    let mut o = Outcome::default();
    let g: JG = serde_json::from_value(v["g"].clone()).expect("grammar");
    let maxk = v["K"].as_u64().unwrap() as usize;
    let all = orders();
    let per = std::env::var("PV_ORDERS_PER")
        .ok()
        .and_then(|s| s.parse().ok())
        .unwrap_or(4usize);
    let mut h = hash(&v["g"]);
    let mut chosen: Vec<Vec<(String, usize)>> = vec![];
    // ascending and descending k, plus `per` orders of the Cache machine chosen by the grammar hash
    chosen.push((1..=maxk).flat_map(|k| [("first".to_string(), k), ("follow".to_string(), k)]).collect());
    chosen.push((1..=maxk).rev().flat_map(|k| [("follow".to_string(), k), ("first".to_string(), k)]).collect());
    for _ in 0..per {
        chosen.push(all[(h % all.len() as u64) as usize].clone());
        h = h / (all.len() as u64) ^ h.rotate_left(17);
    }
    let has_eps = (0..maxk).any(|k| {
        v["first"][k]
            .as_object()
            .unwrap()
            .values()
            .any(|s| tset(s).contains(&vec![]))
    });
    if has_eps {
        o.tag("epsilon_in_first");
    }
    if g.prods.iter().any(|p| p.rhs.iter().filter(|s| g.is_nt(s)).count() >= 2) {
        o.tag("two_nts_in_rhs");
    }
    o.tag("any");
    for reversed in [false, true] {
        let ord = if reversed { "reversed" } else { "given" };
        let c = ctx(&g, reversed, maxk);
        for (oi, order) in chosen.iter().enumerate() {
            let fc = FirstCache::new();
            let foc = FollowCache::new();
            for (ri, (kind, k)) in order.iter().enumerate() {
                let k = *k;
                if k > maxk {
                    continue;
                }
                o.evals += 1;
                let whatp = format!("{kind}_{k}/order{oi}.{ri}/{ord}");
                if kind == "first" {
                    let fs = fc.get(k, &c.gc);
                    let fs = fs.borrow();
                    if k == 0 {
                        continue;
                    }
                    for (i, nt) in c.nts.iter().enumerate() {
                        let e = tset(&v["first"][k - 1][nt]);
                        let a = project(&fs.non_terminals[i], &c.tnames);
                        if e != a {
                            o.mismatch(
                                &format!("{whatp}/nt={nt}"),
                                json!({"set": set_json(&e), "order": order}),
                                set_json(&a),
                            );
                        }
                    }
                    for pi in 0..c.g.prods.len() {
                        let e = tset(&v["firstp"][k - 1][c.pmap[pi]]);
                        let a = project(&fs.productions[pi], &c.tnames);
                        if e != a {
                            o.mismatch(
                                &format!("{whatp}/prod={}", c.pmap[pi]),
                                json!({"set": set_json(&e), "order": order}),
                                set_json(&a),
                            );
                        }
                    }
                } else {
                    let fo = foc.get(k, &c.gc, &fc);
                    let fo = fo.borrow();
                    if k == 0 {
                        continue;
                    }
                    for (i, nt) in c.nts.iter().enumerate() {
                        let e = tset(&v["follow"][k - 1][nt]);
                        let a = project(&fo.verif_follow_set().non_terminals[i], &c.tnames);
                        if e != a {
                            o.mismatch(
                                &format!("{whatp}/nt={nt}"),
                                json!({"set": set_json(&e), "order": order}),
                                set_json(&a),
                            );
                        }
                    }
                }
            }
        }
    }
    o
}
