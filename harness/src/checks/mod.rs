use crate::Outcome;
use anyhow::{Result, bail};
use serde_json::Value;

pub mod c07;
pub mod c18;
pub mod c19;
pub mod c25;
pub mod c26;
pub mod canon;
pub mod c31;
pub mod c34;
pub mod genout;
pub mod c32;
pub mod ll;
pub mod llrun;
pub mod lrrun;
pub mod ls;
pub mod names;
pub mod scan;
pub mod tables;
pub mod tstream;
pub mod wf;
pub mod xform;

pub fn replay_fn(kind: &str) -> Result<fn(&Value) -> Outcome> {
    Ok(match kind {
        "wf" => wf::replay,
        "c05" => ll::replay_c05,
        "c06" => ll::replay_c06,
        "llrun" => llrun::replay,
        "c07" => c07::replay,
        "c31" => c31::replay,
        "c34" => c34::replay,
        "lsx" => ls::replay,
        "tstream" => tstream::replay,
        "c19" => c19::replay,
        "c26" => c26::replay,
        "c25" => c25::replay,
        "c18" => c18::replay,
        "names" => names::replay,
        "tables" => tables::replay,
        "canon" => canon::replay,
        "scan" => scan::replay,
        "c32" => c32::replay,
        "lrrun" => lrrun::replay,
        "xform" => xform::replay,
        _ => bail!("unknown replay kind {kind}"),
    })
}

pub fn record(kind: &str, _out: &str, _args: &[String]) -> Result<()> {
    bail!("unknown record kind {kind}")
}

/// `pv run <grammar.par> <input-file> [k=N] [trim] [norec] [depth=N]` — smoke test of dynrt
pub fn cmd_run(par: &str, input: &str, args: &[String]) -> Result<()> {
    let text = std::fs::read_to_string(par)?;
    let inp = std::fs::read_to_string(input)?;
    let max_k = args
        .iter()
        .find_map(|a| a.strip_prefix("k=").and_then(|x| x.parse().ok()))
        .unwrap_or(5usize);
    let built = match crate::dynrt::build(&text, max_k) {
        Ok(b) => b,
        Err(e) => bail!("build failed at {}: {:#}", e.stage.name(), e.err),
    };
    let tables = crate::dynrt::tables_from_source(&built.parser_source)?;
    let opts = crate::dynrt::RunOpts {
        trim: args.iter().any(|a| a == "trim"),
        recovery: !args.iter().any(|a| a == "norec"),
        max_depth: args
            .iter()
            .find_map(|a| a.strip_prefix("depth=").and_then(|x| x.parse().ok())),
        k: None,
    };
    for e in crate::dynrt::run(&tables, &inp, opts) {
        println!("{e}");
    }
    Ok(())
}
