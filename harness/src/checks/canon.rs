//! C09 — EBNF vectors of Gen_Ebnf.tla are written as PAR text (LL and LALR), parol canonicalises
//! them while building its grammar configuration; input/output pairs are recorded for Xform.tla.
use crate::Outcome;
use crate::gram::{JG, tname_text};
use serde_json::{Value, json};

pub fn render(e: &Value, lr: bool, rn: &dyn Fn(&str) -> String) -> String {
    let nts: Vec<&str> = e["nts"].as_array().unwrap().iter().map(|x| x.as_str().unwrap()).collect();
    let mut s = format!("%start {}\n%title \"t\"\n%comment \"c\"\n", rn(e["start"].as_str().unwrap()));
    if lr {
        s.push_str("%grammar_type 'LALR(1)'\n");
    }
    s.push_str("%%\n");
    for p in e["prods"].as_array().unwrap() {
        s.push_str(&rn(p["lhs"].as_str().unwrap()));
        s.push(':');
        for t in p["rhs"].as_array().unwrap() {
            let t = t.as_str().unwrap();
            s.push(' ');
            if nts.contains(&t) {
                s.push_str(&rn(t));
            } else if "()[]{}|".contains(t) {
                s.push_str(t);
            } else {
                s.push_str(&format!("'{t}'"));
            }
        }
        s.push_str(";\n");
    }
    s
}

pub fn replay(v: &Value) -> Outcome {
    let mut o = Outcome::default();
    let e = &v["e"];
    let n: i64 = std::env::var("PV_LANGN").ok().and_then(|s| s.parse().ok()).unwrap_or(4);
    let nts: Vec<String> = e["nts"].as_array().unwrap().iter().map(|x| x.as_str().unwrap().to_string()).collect();
    // helper names parol derives from the left-hand side: <X>Opt, <X>List, <X>Group, with numeric suffixes
    let mut renamings: Vec<Vec<(String, String)>> = vec![vec![]];
    for x in &nts {
        for y in nts.iter().filter(|y| *y != x) {
            for pat in ["{}Opt", "{}List", "{}Group", "{}Opt0", "{}List0", "{}Group0"] {
                renamings.push(vec![(y.clone(), pat.replace("{}", x))]);
            }
        }
    }
    let h = v.to_string().len();
    let chosen: Vec<Vec<(String, String)>> = std::iter::once(vec![])
        .chain((0..2.min(renamings.len() - 1)).map(|i| renamings[1 + (h + i * 7) % (renamings.len() - 1)].clone()))
        .collect();
    for (ri, ren) in chosen.iter().enumerate() {
        let rn = |s: &str| ren.iter().find(|(a, _)| a == s).map(|(_, b)| b.clone()).unwrap_or(s.to_string());
        for lr in [false, true] {
            let par = render(e, lr, &rn);
            o.evals += 1;
            let r = std::panic::catch_unwind(std::panic::AssertUnwindSafe(|| parol::obtain_grammar_config_from_string(&par, false)));
            match r {
                Err(p) => o.mismatch("canon/panic", json!("no panic"), json!({"msg": crate::panic_msg(p), "par": par})),
                Ok(Err(_)) => o.tag("front_end_rejected_text"),
                Ok(Ok(gc)) => {
                    let after = JG::from_cfg(&gc.cfg, &tname_text);
                    // the EBNF grammar with the renaming applied
                    let mut before = e.clone();
                    before["start"] = json!(rn(e["start"].as_str().unwrap()));
                    before["nts"] = json!(nts.iter().map(|x| rn(x)).collect::<Vec<_>>());
                    for p in before["prods"].as_array_mut().unwrap() {
                        p["lhs"] = json!(rn(p["lhs"].as_str().unwrap()));
                        let rhs: Vec<String> = p["rhs"].as_array().unwrap().iter().map(|t| {
                            let t = t.as_str().unwrap();
                            if nts.iter().any(|x| x == t) { rn(t) } else { t.to_string() }
                        }).collect();
                        p["rhs"] = json!(rhs);
                    }
                    if after.prods.len() > e["prods"].as_array().unwrap().len() {
                        o.tag("helpers_introduced");
                    }
                    if ri > 0 {
                        o.tag("renamed_variant");
                    }
                    o.trace.push(json!({"ev":"xform","kind":"canon","type": if lr {"LALR1"} else {"LLK"},
                                        "before": before, "after": after, "n": n, "vec": v}));
                }
            }
        }
    }
    o
}
