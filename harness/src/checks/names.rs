//! C33 — identifiers of the generated code for Names.tla: terminal/non-terminal name tables and
//! the types, members and trait methods of the generated user-trait source.
use crate::Outcome;
use crate::dynrt::{self, GenCfg};
use parol::{GrammarTypeInfo, InnerAttributes, UserTraitGenerator, UserTraitGeneratorConfig};
use serde_json::{Value, json};

impl UserTraitGeneratorConfig for GenCfg {
    fn inner_attributes(&self) -> &[InnerAttributes] {
        &[]
    }
}

fn name(s: &str) -> Value {
    let (raw, base) = match s.strip_prefix("r#") {
        Some(b) => (true, b),
        None => (false, s),
    };
    json!({"s": base, "c": base.chars().map(|c| c.to_string()).collect::<Vec<_>>(), "raw": raw})
}

pub fn trait_source(b: &dynrt::Built) -> anyhow::Result<String> {
    let mut ti = GrammarTypeInfo::try_new("G")?;
    UserTraitGenerator::new(&b.gc).generate_user_trait_source(&GenCfg::default(), b.gc.grammar_type, &mut ti)
}

pub fn replay(v: &Value) -> Outcome {
    let mut o = Outcome::default();
    let par_owned: String = if let Some(p) = v["par"].as_str() {
        p.to_string()
    } else if v.get("g").is_some() {
        let g: crate::gram::JG = serde_json::from_value(v["g"].clone()).expect("grammar");
        let ty = if v["lr"].as_bool().unwrap_or(false) { parol::parser::parol_grammar::GrammarType::LALR1 } else { parol::parser::parol_grammar::GrammarType::LLK };
        g.to_par(ty, crate::checks::llrun::DECLS)
    } else {
        crate::checks::scan::render_par(&v["cfgdef"], v["lr"].as_bool().unwrap_or(false))
    };
    let built = match std::panic::catch_unwind(std::panic::AssertUnwindSafe(|| dynrt::build(&par_owned, 5))) {
        Ok(Ok(b)) => b,
        Ok(Err(_)) => {
            o.tag("rejected");
            return o;
        }
        Err(_) => {
            o.tag("pipeline_panic(C26)");
            return o;
        }
    };
    o.tag("accepted");
    let tables = match dynrt::tables_from_source(&built.parser_source) {
        Ok(t) => t,
        Err(e) => {
            if v.get("par").is_some() && format!("{e:#}").contains("regex parse error") {
                o.tag("corpus_grammar_with_invalid_regex");
            } else {
                o.mismatch("generated-source", json!("readable tables"), json!(format!("{e:#}")));
            }
            return o;
        }
    };
    let src = match std::panic::catch_unwind(std::panic::AssertUnwindSafe(|| trait_source(&built))) {
        Ok(Ok(s)) => s,
        Ok(Err(e)) => {
            o.mismatch("user-trait-generation", json!("Ok"), json!(format!("{e:#}")));
            return o;
        }
        Err(e) => {
            o.mismatch("user-trait-generation-panic", json!("no panic"), json!(crate::panic_msg(e)));
            return o;
        }
    };
    let file: syn::File = match syn::parse_str(&src) {
        Ok(f) => f,
        Err(e) => {
            // an invalid identifier (or anything else rustc could not even parse) in the generated trait source
            o.mismatch("user-trait-source-syntax", json!("parsable Rust"), json!(e.to_string()));
            return o;
        }
    };
    let mut types = vec![];
    let mut members = vec![];
    let mut methods = vec![];
    for item in &file.items {
        match item {
            syn::Item::Struct(s) => {
                types.push(name(&s.ident.to_string()));
                let ms: Vec<Value> = s.fields.iter().filter_map(|f| f.ident.as_ref().map(|i| name(&i.to_string()))).collect();
                members.push(json!({"t": s.ident.to_string(), "m": ms}));
            }
            syn::Item::Enum(e) => {
                types.push(name(&e.ident.to_string()));
                let ms: Vec<Value> = e.variants.iter().map(|x| name(&x.ident.to_string())).collect();
                members.push(json!({"t": e.ident.to_string(), "m": ms}));
            }
            syn::Item::Trait(t) => {
                types.push(name(&t.ident.to_string()));
                let mut ms = vec![];
                for it in &t.items {
                    if let syn::TraitItem::Fn(f) = it {
                        methods.push(name(&f.sig.ident.to_string()));
                        ms.push(name(&f.sig.ident.to_string()));
                    }
                }
                // the methods of one trait must be pairwise distinct
                members.push(json!({"t": t.ident.to_string(), "m": ms}));
            }
            _ => {}
        }
    }
    if members.iter().any(|m| m["m"].as_array().unwrap().len() >= 2) {
        o.tag("type_with_several_members");
    }
    o.evals += 1;
    o.trace.push(json!({"ev":"names","id": v["id"],
        "terminals": tables.terminal_names.iter().map(|s| name(s)).collect::<Vec<_>>(),
        "nonterminals": tables.non_terminals.iter().map(|s| name(s)).collect::<Vec<_>>(),
        "types": types, "members": members, "methods": methods,
        "vec": v}));
    o
}
