//! C07 — the lookahead automata (unminimised `LookaheadDFA` and the compiled/minimised automaton
//! of the export model) accept exactly the lookahead strings of Gen_LL's vectors.
use crate::Outcome;
use crate::checks::ll::{ctx, tset};
use crate::gram::JG;
use parol::{calculate_lookahead_dfas, generate_parser_export_model};
use serde_json::{Value, json};
use std::collections::BTreeMap;

/// normalised automaton: state -> production (-1 none), (state, sym) -> state
pub struct Aut {
    pub prod: BTreeMap<usize, i64>,
    pub trans: BTreeMap<(usize, String), usize>,
    pub problems: Vec<String>,
    pub k: usize,
}

impl Aut {
    /// production predicted after reading the whole of w, None if the walk dies
    pub fn run(&self, w: &[String]) -> Option<i64> {
        let mut s = 0usize;
        for x in w {
            s = *self.trans.get(&(s, x.clone()))?;
        }
        Some(*self.prod.get(&s).unwrap_or(&-1))
    }
}

fn sym(ti: u64, tnames: &[String]) -> String {
    if ti == 0 {
        "$".into()
    } else if ti >= 5 && ((ti - 5) as usize) < tnames.len() {
        tnames[(ti - 5) as usize].clone()
    } else {
        format!("?{ti}")
    }
}

pub fn all_windows(ts: &[String], n: usize) -> Vec<Vec<String>> {
    // strings over ts of length <= n, optionally closed by "$"
    let mut out: Vec<Vec<String>> = vec![vec![]];
    let mut cur: Vec<Vec<String>> = vec![vec![]];
    for _ in 0..n {
        let mut next = vec![];
        for w in &cur {
            for t in ts {
                let mut w2 = w.clone();
                w2.push(t.clone());
                next.push(w2);
            }
        }
        out.extend(next.iter().cloned());
        cur = next;
    }
    let closed: Vec<Vec<String>> = out
        .iter()
        .filter(|w| w.len() < n + 1)
        .map(|w| {
            let mut w2 = w.clone();
            w2.push("$".to_string());
            w2
        })
        .collect();
    out.extend(closed);
    out
}

pub fn replay(v: &Value) -> Outcome {
    let mut o = Outcome::default();
    let g: JG = serde_json::from_value(v["g"].clone()).expect("grammar");
    let maxk = v["K"].as_u64().unwrap() as usize;
    // smallest K for which the grammar is strong LL(K)
    let Some(kk) = (1..=maxk).find(|k| v["strongll"][k - 1].as_bool().unwrap()) else {
        return o;
    };
    o.tag("accepted");
    for reversed in [false, true] {
        let ord = if reversed { "reversed" } else { "given" };
        let c = ctx(&g, reversed, kk);
        let dfas = match calculate_lookahead_dfas(&c.gc, kk) {
            Ok(d) => d,
            Err(e) => {
                o.mismatch(&format!("dfas/{ord}"), json!("Ok"), json!(format!("{e:#}")));
                continue;
            }
        };
        let model = match generate_parser_export_model(&c.gc, &dfas) {
            Ok(m) => serde_json::to_value(&m).unwrap(),
            Err(e) => {
                o.mismatch(&format!("export-model/{ord}"), json!("Ok"), json!(format!("{e:#}")));
                continue;
            }
        };
        for (nt, dfa) in &dfas {
            let k = v["mink"][nt].as_u64().unwrap() as usize;
            // raw automaton
            let mut raw = Aut { prod: BTreeMap::new(), trans: BTreeMap::new(), problems: vec![], k: dfa.k };
            for s in &dfa.states {
                raw.prod.insert(s.id, s.prod_num as i64);
            }
            for (from, m) in &dfa.transitions {
                for (t, to) in m {
                    raw.trans.insert((*from, sym(*t as u64, &c.tnames)), *to);
                }
            }
            // compiled automaton from the export model
            let am = model["lookahead_automata"]
                .as_array()
                .unwrap()
                .iter()
                .find(|a| a["non_terminal_name"] == json!(nt))
                .cloned()
                .unwrap_or(Value::Null);
            let mut comp = Aut { prod: BTreeMap::new(), trans: BTreeMap::new(), problems: vec![], k: am["k"].as_u64().unwrap_or(99) as usize };
            comp.prod.insert(0, am["prod0"].as_i64().unwrap_or(-99));
            let mut last: Option<(u64, u64)> = None;
            let mut maxstate = 0usize;
            for t in am["transitions"].as_array().cloned().unwrap_or_default() {
                let (f, term, to, p) = (
                    t["from_state"].as_u64().unwrap(),
                    t["term"].as_u64().unwrap(),
                    t["to_state"].as_u64().unwrap() as usize,
                    t["prod_num"].as_i64().unwrap(),
                );
                if let Some(l) = last
                    && l >= (f, term)
                {
                    comp.problems.push(format!("transitions not strictly sorted at ({f},{term})"));
                }
                last = Some((f, term));
                maxstate = maxstate.max(f as usize).max(to);
                if let Some(old) = comp.prod.insert(to, p)
                    && old != p
                {
                    comp.problems.push(format!("state {to} has two production numbers {old} and {p}"));
                }
                if comp.trans.insert((f as usize, sym(term, &c.tnames)), to).is_some() {
                    comp.problems.push(format!("two transitions from {f} on {term}"));
                }
            }
            let mut used: std::collections::BTreeSet<usize> = comp.trans.values().cloned().collect();
            used.insert(0);
            used.extend(comp.trans.keys().map(|(f, _)| *f));
            if used.len() != maxstate + 1 {
                comp.problems.push(format!("states not numbered densely: {used:?}"));
            }
            for p in &comp.problems {
                o.mismatch(&format!("compiled-shape/{nt}/{ord}"), json!("well-formed automaton"), json!(p));
            }
            for (name, a) in [("raw", &raw), ("compiled", &comp)] {
                if a.k != k {
                    o.mismatch(&format!("{name}.k/{nt}/{ord}"), json!(k), json!(a.k));
                }
            }
            // expected: string -> production (vector index)
            let mut expect: BTreeMap<Vec<String>, usize> = BTreeMap::new();
            let prods_of: Vec<usize> = (0..c.g.prods.len()).filter(|i| c.g.prods[*i].lhs == *nt).collect();
            if k == 0 {
                expect.insert(vec![], prods_of[0]);
            } else {
                for pi in &prods_of {
                    for w in tset(&v["la"][k - 1][c.pmap[*pi]]) {
                        expect.insert(w, *pi);
                    }
                }
            }
            let ws = all_windows(&c.tnames, k + 1);
            o.evals += ws.len();
            if k >= 2 {
                o.tag("k>=2");
            }
            for w in ws {
                let e = expect.get(&w).map(|p| *p as i64).unwrap_or(-1);
                for (name, a) in [("raw", &raw), ("compiled", &comp)] {
                    let got = a.run(&w).unwrap_or(-1);
                    if got != e {
                        o.mismatch(
                            &format!("{name}-predicts/{nt}/{ord}"),
                            json!({"window": w, "production": e}),
                            json!(got),
                        );
                    }
                }
            }
        }
    }
    o
}
