//! TokenStream.tla (C13/C17): operation sequences on the real look-ahead buffer.
use crate::Outcome;
use crate::checks::scan;
use crate::dynrt;
use parol_runtime::TokenStream;
use serde_json::{Value, json};
use std::cell::RefCell;
use std::rc::Rc;

fn tok(t: &parol_runtime::Token<'_>) -> Value {
    if t.token_type == 0 {
        json!({"ty": 0})
    } else {
        json!({"ty": t.token_type, "s": t.location.start, "e": t.location.end, "skip": t.is_effectively_skip_token()})
    }
}

pub fn replay(v: &Value) -> Outcome {
    let mut o = Outcome::default();
    let id = v["cfg"].as_str().unwrap();
    let tables = match scan::tables_for(id, false) {
        Ok(t) => t,
        Err(e) => {
            o.mismatch("configuration-rejected", json!("accepted"), json!(e));
            return o;
        }
    };
    let pieces: Vec<&str> = v["text"].as_array().unwrap().iter().map(|c| scan::ch(c.as_str().unwrap())).collect();
    let text: String = pieces.concat();
    // character index -> byte offset
    let mut off = vec![0usize];
    for p in &pieces {
        for c in p.chars() {
            off.push(off.last().unwrap() + c.len_utf8());
        }
    }
    let k = v["k"].as_u64().unwrap() as usize;
    let mf: &'static _ = Box::leak(Box::new(dynrt::match_fn(tables.scanner.intervals)));
    let scanner_impl = Rc::new(RefCell::new(scnr2::ScannerImpl::new(tables.scanner.modes)));
    let mut ts = match TokenStream::new_with_skip_tokens(&text, "in.txt", scanner_impl, mf, k, tables.skip_tokens) {
        Ok(t) => t,
        Err(e) => {
            o.mismatch("stream-init", json!("Ok"), json!(e.to_string()));
            return o;
        }
    };
    let exp_tok = |t: &Value| -> Value {
        if t["ty"] == json!(0) {
            json!({"ty": 0})
        } else {
            json!({"ty": t["ty"], "s": off[t["s"].as_u64().unwrap() as usize], "e": off[t["e"].as_u64().unwrap() as usize], "skip": t["skip"]})
        }
    };
    o.tag("stream");
    for (i, op) in v["ops"].as_array().unwrap().iter().enumerate() {
        o.evals += 1;
        let exp: Vec<Value> = op["res"].as_array().map(|a| a.iter().map(&exp_tok).collect()).unwrap_or_default();
        let (got, what): (Vec<Value>, String) = match op["op"].as_str().unwrap() {
            "la" => {
                let n = op["n"].as_u64().unwrap() as usize;
                (ts.lookahead(n).map(|t| vec![tok(&t)]).unwrap_or_default(), format!("lookahead({n})"))
            }
            "take" => (ts.take_skip_tokens().iter().map(tok).collect(), "take_skip_tokens".into()),
            _ => (ts.consume().map(|t| vec![tok(&t)]).unwrap_or_default(), "consume".into()),
        };
        if got != exp {
            o.mismatch(&format!("op{i}/{what}"), json!({"result": exp, "text": text, "k": k, "ops": v["ops"]}), json!(got));
            break;
        }
        if !exp.is_empty() && exp.iter().any(|t| t["skip"] == json!(true)) {
            o.tag("skips_taken");
        }
    }
    o
}
