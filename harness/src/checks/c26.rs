//! C26 — no stage of parol panics (or hangs) on any grammar text: parse, check/transform, analyse,
//! generate (lexer, parser, user trait), for both grammar types and several lookahead limits.
use crate::Outcome;
use crate::dynrt;
use rand::prelude::*;
use serde_json::{Value, json};
use std::sync::mpsc;
use std::time::Duration;

fn run_pipeline(par: String, k: usize) -> Result<&'static str, String> {
    let (tx, rx) = mpsc::channel();
    std::thread::Builder::new()
        .stack_size(64 * 1024 * 1024)
        .spawn(move || {
            let r = std::panic::catch_unwind(std::panic::AssertUnwindSafe(|| {
                match dynrt::build(&par, k) {
                    Ok(b) => {
                        // the user trait / AST types are generated too
                        match crate::checks::names::trait_source(&b) {
                            Ok(_) => "accepted",
                            Err(_) => "rejected_trait_generation",
                        }
                    }
                    Err(e) => match e.stage {
                        dynrt::Stage::Parse => "rejected_parse",
                        dynrt::Stage::Check => "rejected_check",
                        dynrt::Stage::Analyse => "rejected_analysis",
                        dynrt::Stage::Generate => "rejected_generate",
                    },
                }
            }));
            let _ = tx.send(r.map_err(crate::panic_msg));
        })
        .expect("spawn");
    match rx.recv_timeout(Duration::from_secs(30)) {
        Ok(r) => r.map_err(|m| format!("panic: {m}")),
        Err(_) => Err("no result after 30 s".to_string()),
    }
}

/// token-ish and character level mutations of a grammar text, deterministic in the seed
pub fn mutate(base: &str, seed: u64) -> String {
    let mut rng = StdRng::seed_from_u64(seed);
    let mut chars: Vec<char> = base.chars().collect();
    let inserts = ["(", ")", "[", "]", "{", "}", "|", ";", ":", "%%", "%start", "%scanner X {", "}", "'", "\"", "/", "\\", "<", ">", "^", "@", "?=", "?!",
                   "%on", "%enter", "%pop", "%push", "%skip", "%t_type", "%nt_type", "%grammar_type 'lalr(1)'", "é", "\u{0}", "::", "S", "''", "\"\"", "//", "/*"];
    let n = rng.random_range(1..=3);
    for _ in 0..n {
        if chars.is_empty() {
            break;
        }
        let i = rng.random_range(0..chars.len());
        match rng.random_range(0..5) {
            0 => {
                let len = rng.random_range(1..=8).min(chars.len() - i);
                chars.drain(i..i + len);
            }
            1 => {
                let ins: Vec<char> = inserts[rng.random_range(0..inserts.len())].chars().collect();
                for (j, c) in ins.into_iter().enumerate() {
                    chars.insert(i + j, c);
                }
            }
            2 => {
                let j = rng.random_range(0..chars.len());
                chars.swap(i, j);
            }
            3 => {
                let len = rng.random_range(1..=20).min(chars.len() - i);
                let dup: Vec<char> = chars[i..i + len].to_vec();
                for (j, c) in dup.into_iter().enumerate() {
                    chars.insert(i + j, c);
                }
            }
            _ => {
                chars.truncate(i);
            }
        }
    }
    chars.into_iter().collect()
}

pub fn replay(v: &Value) -> Outcome {
    let mut o = Outcome::default();
    let mut texts: Vec<(String, String)> = vec![];
    if let Some(p) = v["par"].as_str() {
        texts.push(("as-is".into(), p.to_string()));
        let seed0 = v["seed"].as_u64().unwrap_or(1);
        let nm = v["mutations"].as_u64().unwrap_or(0);
        for i in 0..nm {
            texts.push((format!("mutation{i}"), mutate(p, seed0.wrapping_mul(1000003).wrapping_add(i))));
        }
    } else if v.get("g").is_some() {
        let g: crate::gram::JG = serde_json::from_value(v["g"].clone()).expect("grammar");
        for ty in [parol::parser::parol_grammar::GrammarType::LLK, parol::parser::parol_grammar::GrammarType::LALR1] {
            texts.push((format!("{ty:?}"), g.to_par(ty, "")));
        }
    } else if v.get("e").is_some() {
        for lr in [false, true] {
            texts.push((format!("ebnf/lr={lr}"), crate::checks::canon::render(&v["e"], lr, &|s: &str| s.to_string())));
        }
    } else if let Some(b) = v["bytes"].as_array() {
        let bytes: Vec<u8> = b.iter().map(|x| x.as_u64().unwrap() as u8).collect();
        texts.push(("bytes".into(), String::from_utf8_lossy(&bytes).to_string()));
    }
    for (what, text) in texts {
        let ks: &[usize] = if v.get("par").is_some() { &[1, 3] } else { &[1, 3, 10] };
        for &k in ks {
            o.evals += 1;
            match run_pipeline(text.clone(), k) {
                Ok(tag) => {
                    o.tag(tag);
                    if tag == "rejected_parse" {
                        // the verdict of the front end does not depend on k
                        break;
                    }
                }
                Err(msg) if msg.starts_with("no result") => {
                    // the property is about panics; a slow analysis is only counted
                    o.tag("no_result_within_30s");
                    break;
                }
                Err(msg) => {
                    o.mismatch(&format!("pipeline/{what}/K={k}"), json!("Ok or Err"), json!({"outcome": msg, "text": text}));
                    break;
                }
            }
        }
    }
    o
}
