//! C18 — every generated part numbers a terminal occurrence the way Gen_Term.tla says.
use crate::Outcome;
use crate::dynrt::{self, PTables, RunOpts};
use parol_runtime::parser::ParseType;
use serde_json::{Value, json};

fn text_of(t: &str) -> &'static str {
    match t {
        "a" => "a",
        "b" => "b",
        "esc" => r"\.",
        _ => ".",
    }
}
fn render_occ(o: &Value) -> String {
    let t = text_of(o["text"].as_str().unwrap());
    let lit = match o["kind"].as_str().unwrap() {
        "legacy" => format!("\"{t}\""),
        "regex" => format!("/{t}/"),
        _ => format!("'{t}'"),
    };
    match o["la"].as_str().unwrap() {
        "pos" => format!("{lit} ?= 'a'"),
        "neg" => format!("{lit} ?! 'a'"),
        _ => lit,
    }
}
/// the regular expression the scanner must carry for the occurrence
fn expanded(o: &Value) -> String {
    let t = text_of(o["text"].as_str().unwrap());
    match o["kind"].as_str().unwrap() {
        "raw" => parol::TerminalKind::Raw.expand(t),
        "regex" => parol::TerminalKind::Regex.expand(t),
        _ => parol::TerminalKind::Legacy.expand(t),
    }
}

pub fn replay(v: &Value) -> Outcome {
    let mut o = Outcome::default();
    let occ = v["occ"].as_array().unwrap();
    let idx: Vec<u64> = v["idx"].as_array().unwrap().iter().map(|x| x.as_u64().unwrap()).collect();
    let ncl = v["nclasses"].as_u64().unwrap() as usize;
    if ncl < occ.len() {
        o.tag("repeated_terminal");
    }
    if ncl >= 2 {
        o.tag("several_terminals");
    }
    for lr in [false, true] {
        let name = if lr { "LR" } else { "LL" };
        let par = format!(
            "%start S\n%title \"t\"\n%comment \"c\"\n{}%%\nS: {};\n",
            if lr { "%grammar_type 'LALR(1)'\n" } else { "" },
            occ.iter().map(render_occ).collect::<Vec<_>>().join(" ")
        );
        let built = match std::panic::catch_unwind(std::panic::AssertUnwindSafe(|| dynrt::build(&par, 3))) {
            Ok(Ok(b)) => b,
            Ok(Err(_)) => {
                o.tag("rejected");
                continue;
            }
            Err(e) => {
                o.mismatch(&format!("pipeline-panic/{name}"), json!("Ok or Err"), json!({"msg": crate::panic_msg(e), "par": par}));
                continue;
            }
        };
        let tables = match dynrt::tables_from_source(&built.parser_source) {
            Ok(t) => t,
            Err(e) => {
                o.mismatch(&format!("generated-source/{name}"), json!("readable tables"), json!(format!("{e:#}")));
                continue;
            }
        };
        o.evals += 1;
        // terminal-name table
        if tables.terminal_names.len() != 5 + ncl + 1 {
            o.mismatch(&format!("terminal-names/{name}"), json!(5 + ncl + 1), json!(tables.terminal_names));
        }
        // production table of the generated source (LL only: LR productions carry lengths)
        if let PTables::LL(ll) = &tables.p {
            let p = ll.productions.iter().find(|p| tables.non_terminals[p.lhs] == "S").unwrap();
            let got: Vec<u64> = p.production.iter().rev().filter_map(|s| if let ParseType::T(t) = s { Some(*t as u64) } else { None }).collect();
            if got != idx {
                o.mismatch("production-table/source", json!(idx), json!(got));
            }
        }
        // export model
        let model = match &built.algo {
            dynrt::Algo::LL(d) => parol::generate_parser_export_model(&built.gc, d),
            dynrt::Algo::LR(t, _) => parol::generate_lalr1_parser_export_model(&built.gc, t),
        };
        match model.map(|m| serde_json::to_value(&m).unwrap()) {
            Ok(m) => {
                let p = m["productions"].as_array().unwrap().iter().find(|p| p["text"].as_str().unwrap().starts_with("S:")).cloned().unwrap_or(Value::Null);
                let got: Vec<u64> = p["rhs"].as_array().map(|r| r.iter().filter_map(|s| s["Terminal"]["index"].as_u64()).collect()).unwrap_or_default();
                if got != idx {
                    o.mismatch(&format!("production-table/export/{name}"), json!(idx), json!(got));
                }
                // scanner terminals of the export model
                for (i, oc) in occ.iter().enumerate() {
                    let t = m["scanner"]["terminals"].as_array().unwrap().iter().find(|t| t["index"].as_u64() == Some(idx[i]));
                    let ok = t.map(|t| t["expanded_pattern"] == json!(expanded(oc))
                        && (t["lookahead"].is_null() == (oc["la"] == "none"))
                        && (t["lookahead"].is_null() || t["lookahead"]["is_positive"] == json!(oc["la"] == "pos"))).unwrap_or(false);
                    if !ok {
                        o.mismatch(&format!("scanner/export/{name}/occ{i}"), json!({"index": idx[i], "pattern": expanded(oc), "la": oc["la"]}), json!(t));
                    }
                }
            }
            Err(e) => o.mismatch(&format!("export-model/{name}"), json!("Ok"), json!(format!("{e:#}"))),
        }
        // the scanner of the generated source
        for (i, oc) in occ.iter().enumerate() {
            let tok = tables.scanner.macro_modes[0].tokens.iter().find(|(_, ty, _)| *ty as u64 == idx[i]);
            let ok = tok.map(|(p, _, la)| *p == expanded(oc) && match (la, oc["la"].as_str().unwrap()) {
                (None, "none") => true,
                (Some((true, _)), "pos") => true,
                (Some((false, _)), "neg") => true,
                _ => false,
            }).unwrap_or(false);
            if !ok {
                o.mismatch(&format!("scanner/source/{name}/occ{i}"), json!({"index": idx[i], "pattern": expanded(oc), "la": oc["la"]}), json!(tok.map(|t| format!("{t:?}"))));
            }
        }
        // run time: when no two terminals share a pattern and there is no lookahead and no "any
        // character" terminal, the sentence of the grammar must parse
        let pats: Vec<String> = occ.iter().map(expanded).collect();
        let mut up = pats.clone();
        up.sort();
        up.dedup();
        let simple = occ.iter().all(|oc| oc["la"] == "none") && !pats.iter().any(|p| p == ".") && up.len() == ncl
            // a raw '.' and a regex \. both match the text "."
            && !(pats.iter().any(|p| p == r"\.") && occ.iter().any(|oc| oc["kind"] == "raw" && oc["text"] == "dot") && false);
        if simple {
            // a raw terminal matches its text literally, the others are regular expressions
            let text: Vec<&str> = occ.iter().map(|oc| {
                let t = text_of(oc["text"].as_str().unwrap());
                if oc["kind"] == "raw" { t } else if t == r"\." { "." } else { t }
            }).collect();
            let evs = crate::checks::llrun::run_safe(&tables, &text.join(" "), RunOpts { max_depth: Some(1000), ..Default::default() });
            let (ok, kind) = crate::checks::llrun::verdict(&evs);
            if !ok {
                o.mismatch(&format!("sentence-parses/{name}"), json!({"ok": true, "text": text.join(" ")}), json!({"ok": ok, "err": kind}));
            }
            o.tag("sentence_parsed");
        }
        // scanner-state variant: the first terminal is used inline in INITIAL, 'o' enters M2 where the others live
        // (one primary non-terminal each), the last one returns and the second one is skipped in M2; transition
        // and skip lists must carry the numbers Gen_Term assigned ('o' takes the number after the first terminal)
        if ncl == occ.len() && occ.len() >= 2 {
            let n = occ.len();
            let idx: Vec<u64> = idx.iter().enumerate().map(|(i, x)| if i == 0 { *x } else { *x + 1 }).collect();
            let ncl = ncl + 1;
            let mut par2 = format!(
                "%start S\n%title \"t\"\n%comment \"c\"\n{}%on Open %enter M2\n%scanner M2 {{\n{}%on T{n} %enter INITIAL\n}}\n%%\nS: {} Open {};\nOpen: 'o';\n",
                if lr { "%grammar_type 'LALR(1)'\n" } else { "" },
                if n >= 3 { "%skip T2\n" } else { "" },
                render_occ(&occ[0]),
                (2..=n).map(|i| format!("T{i}")).collect::<Vec<_>>().join(" ")
            );
            for (i, oc) in occ.iter().enumerate().skip(1) {
                par2.push_str(&format!("T{}: <M2>{};\n", i + 1, render_occ(oc)));
            }
            let built2 = match std::panic::catch_unwind(std::panic::AssertUnwindSafe(|| dynrt::build(&par2, 3))) {
                Ok(Ok(b)) => b,
                Ok(Err(_)) => {
                    o.tag("state_variant_rejected");
                    continue;
                }
                Err(e) => {
                    o.mismatch(&format!("pipeline-panic/states/{name}"), json!("Ok or Err"), json!({"msg": crate::panic_msg(e), "par": par2}));
                    continue;
                }
            };
            let Ok(t2) = dynrt::tables_from_source(&built2.parser_source) else { continue };
            o.evals += 1;
            o.tag("state_variant");
            let modes = &t2.scanner.macro_modes;
            if modes.len() != 2 {
                o.mismatch(&format!("states/modes/{name}"), json!(2), json!(modes.len()));
                continue;
            }
            let tr = |m: usize| -> Vec<(u64, String)> { modes[m].transitions.iter().map(|(ty, a, _)| (*ty as u64, a.clone())).collect() };
            if !tr(0).iter().any(|(ty, _)| *ty == idx[0] + 1) || tr(0).len() != 1 {
                o.mismatch(&format!("states/transition-INITIAL/{name}"), json!({"on": idx[0] + 1}), json!({"got": tr(0), "par": par2}));
            }
            if !tr(1).iter().any(|(ty, _)| *ty == idx[n - 1]) || tr(1).len() != 1 {
                o.mismatch(&format!("states/transition-M2/{name}"), json!({"on": idx[n - 1]}), json!({"got": tr(1), "par": par2}));
            }
            // user tokens per mode
            let user = |m: usize| -> Vec<u64> { let mut v: Vec<u64> = modes[m].tokens.iter().map(|(_, ty, _)| *ty as u64).filter(|ty| *ty >= 5 && (*ty as usize) < 5 + ncl).collect(); v.sort(); v };
            let mut exp1: Vec<u64> = idx[1..].to_vec();
            exp1.sort();
            if user(0) != vec![idx[0], idx[0] + 1] || user(1) != exp1 {
                o.mismatch(&format!("states/tokens-per-mode/{name}"), json!({"INITIAL": [idx[0], idx[0] + 1], "M2": exp1}), json!({"INITIAL": user(0), "M2": user(1), "par": par2}));
            }
            if n >= 3 {
                let skips: Vec<Vec<u64>> = t2.skip_tokens.iter().map(|m| m.iter().map(|x| *x as u64).collect()).collect();
                if skips.len() != 2 || !skips[0].is_empty() || skips[1] != vec![idx[1]] {
                    o.mismatch(&format!("states/skip-list/{name}"), json!([[], [idx[1]]]), json!({"got": skips, "par": par2}));
                }
            }
        }
    }
    o
}
