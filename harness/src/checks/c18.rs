//! C18 — every generated part numbers a terminal occurrence the way Gen_Term.tla says.
use crate::Outcome;
use crate::dynrt::{self, PTables, RunOpts};
use parol_runtime::parser::ParseType;
use serde_json::{Value, json};

fn text_of(t: &str) -> &'static str {
    match t {
        "a" => "a",
        "b" => "b",
        "esc" => r"\.",
        _ => ".",
    }
}
fn render_occ(o: &Value) -> String {
    let t = text_of(o["text"].as_str().unwrap());
    let lit = match o["kind"].as_str().unwrap() {
        "legacy" => format!("\"{t}\""),
        "regex" => format!("/{t}/"),
        _ => format!("'{t}'"),
    };
    match o["la"].as_str().unwrap() {
        "pos" => format!("{lit} ?= 'a'"),
        "neg" => format!("{lit} ?! 'a'"),
        _ => lit,
    }
}
/// the regular expression the scanner must carry for the occurrence
fn expanded(o: &Value) -> String {
    let t = text_of(o["text"].as_str().unwrap());
    match o["kind"].as_str().unwrap() {
        "raw" => parol::TerminalKind::Raw.expand(t),
        "regex" => parol::TerminalKind::Regex.expand(t),
        _ => parol::TerminalKind::Legacy.expand(t),
    }
}

pub fn replay(v: &Value) -> Outcome {
    let mut o = Outcome::default();
    let occ = v["occ"].as_array().unwrap();
    let idx: Vec<u64> = v["idx"].as_array().unwrap().iter().map(|x| x.as_u64().unwrap()).collect();
    let ncl = v["nclasses"].as_u64().unwrap() as usize;
    if ncl < occ.len() {
        o.tag("repeated_terminal");
    }
    if ncl >= 2 {
        o.tag("several_terminals");
    }
    for lr in [false, true] {
        let name = if lr { "LR" } else { "LL" };
        let par = format!(
            "%start S\n%title \"t\"\n%comment \"c\"\n{}%%\nS: {};\n",
            if lr { "%grammar_type 'LALR(1)'\n" } else { "" },
            occ.iter().map(render_occ).collect::<Vec<_>>().join(" ")
        );
        let built = match std::panic::catch_unwind(std::panic::AssertUnwindSafe(|| dynrt::build(&par, 3))) {
            Ok(Ok(b)) => b,
            Ok(Err(_)) => {
                o.tag("rejected");
                continue;
            }
            Err(e) => {
                o.mismatch(&format!("pipeline-panic/{name}"), json!("Ok or Err"), json!({"msg": crate::panic_msg(e), "par": par}));
                continue;
            }
        };
        let tables = match dynrt::tables_from_source(&built.parser_source) {
            Ok(t) => t,
            Err(e) => {
                o.mismatch(&format!("generated-source/{name}"), json!("readable tables"), json!(format!("{e:#}")));
                continue;
            }
        };
        o.evals += 1;
        // terminal-name table
        if tables.terminal_names.len() != 5 + ncl + 1 {
            o.mismatch(&format!("terminal-names/{name}"), json!(5 + ncl + 1), json!(tables.terminal_names));
        }
        // production table of the generated source (LL only: LR productions carry lengths)
        if let PTables::LL(ll) = &tables.p {
            let p = ll.productions.iter().find(|p| tables.non_terminals[p.lhs] == "S").unwrap();
            let got: Vec<u64> = p.production.iter().rev().filter_map(|s| if let ParseType::T(t) = s { Some(*t as u64) } else { None }).collect();
            if got != idx {
                o.mismatch("production-table/source", json!(idx), json!(got));
            }
        }
        // export model
        let model = match &built.algo {
            dynrt::Algo::LL(d) => parol::generate_parser_export_model(&built.gc, d),
            dynrt::Algo::LR(t, _) => parol::generate_lalr1_parser_export_model(&built.gc, t),
        };
        match model.map(|m| serde_json::to_value(&m).unwrap()) {
            Ok(m) => {
                let p = m["productions"].as_array().unwrap().iter().find(|p| p["text"].as_str().unwrap().starts_with("S:")).cloned().unwrap_or(Value::Null);
                let got: Vec<u64> = p["rhs"].as_array().map(|r| r.iter().filter_map(|s| s["Terminal"]["index"].as_u64()).collect()).unwrap_or_default();
                if got != idx {
                    o.mismatch(&format!("production-table/export/{name}"), json!(idx), json!(got));
                }
                // scanner terminals of the export model
                for (i, oc) in occ.iter().enumerate() {
                    let t = m["scanner"]["terminals"].as_array().unwrap().iter().find(|t| t["index"].as_u64() == Some(idx[i]));
                    let ok = t.map(|t| t["expanded_pattern"] == json!(expanded(oc))
                        && (t["lookahead"].is_null() == (oc["la"] == "none"))
                        && (t["lookahead"].is_null() || t["lookahead"]["is_positive"] == json!(oc["la"] == "pos"))).unwrap_or(false);
                    if !ok {
                        o.mismatch(&format!("scanner/export/{name}/occ{i}"), json!({"index": idx[i], "pattern": expanded(oc), "la": oc["la"]}), json!(t));
                    }
                }
            }
            Err(e) => o.mismatch(&format!("export-model/{name}"), json!("Ok"), json!(format!("{e:#}"))),
        }
        // the scanner of the generated source
        for (i, oc) in occ.iter().enumerate() {
            let tok = tables.scanner.macro_modes[0].tokens.iter().find(|(_, ty, _)| *ty as u64 == idx[i]);
            let ok = tok.map(|(p, _, la)| *p == expanded(oc) && match (la, oc["la"].as_str().unwrap()) {
                (None, "none") => true,
                (Some((true, _)), "pos") => true,
                (Some((false, _)), "neg") => true,
                _ => false,
            }).unwrap_or(false);
            if !ok {
                o.mismatch(&format!("scanner/source/{name}/occ{i}"), json!({"index": idx[i], "pattern": expanded(oc), "la": oc["la"]}), json!(tok.map(|t| format!("{t:?}"))));
            }
        }
        // run time: when no two terminals share a pattern and there is no lookahead and no "any
        // character" terminal, the sentence of the grammar must parse
        let pats: Vec<String> = occ.iter().map(expanded).collect();
        let mut up = pats.clone();
        up.sort();
        up.dedup();
        let simple = occ.iter().all(|oc| oc["la"] == "none") && !pats.iter().any(|p| p == ".") && up.len() == ncl
            // a raw '.' and a regex \. both match the text "."
            && !(pats.iter().any(|p| p == r"\.") && occ.iter().any(|oc| oc["kind"] == "raw" && oc["text"] == "dot") && false);
        if simple {
            // a raw terminal matches its text literally, the others are regular expressions
            let text: Vec<&str> = occ.iter().map(|oc| {
                let t = text_of(oc["text"].as_str().unwrap());
                if oc["kind"] == "raw" { t } else if t == r"\." { "." } else { t }
            }).collect();
            let evs = crate::checks::llrun::run_safe(&tables, &text.join(" "), RunOpts { max_depth: Some(1000), ..Default::default() });
            let (ok, kind) = crate::checks::llrun::verdict(&evs);
            if !ok {
                o.mismatch(&format!("sentence-parses/{name}"), json!({"ok": true, "text": text.join(" ")}), json!({"ok": ok, "err": kind}));
            }
            o.tag("sentence_parsed");
        }
    }
    o
}
