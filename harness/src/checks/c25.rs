//! C25 — render_par_string round trip, before and after transformation, on feature combinations.
use crate::Outcome;
use parol::GrammarConfig;
use serde_json::{Value, json};

/// PAR text for a feature set
pub fn template(flags: &[String]) -> String {
    let on = |f: &str| flags.iter().any(|x| x == f);
    let mut s = String::from("%start S\n%title \"t\"\n%comment \"c\"\n");
    if on("lr") {
        s.push_str("%grammar_type 'LALR(1)'\n");
    }
    if on("ut") {
        s.push_str("%user_type MyT = my::T\n");
    }
    if on("ntt") {
        s.push_str("%nt_type A = my::NtA\n");
    }
    if on("tt") {
        s.push_str("%t_type my::Tok\n");
    }
    if on("cm") {
        s.push_str("%line_comment \"//\"\n%block_comment \"/\\*\" \"\\*/\"\n");
    }
    if on("auto") {
        s.push_str("%auto_newline_off\n%auto_ws_off\n");
    }
    if on("um") {
        s.push_str("%allow_unmatched\n");
    }
    if on("modes") {
        s.push_str("%on B %enter M2\n%scanner M2 {\n%auto_ws_off\n");
        if on("um2") {
            s.push_str("%allow_unmatched\n");
        }
        if on("skip") {
            s.push_str("%skip C2\n");
        }
        s.push_str("%on B %enter INITIAL\n}\n");
    }
    s.push_str("%%\n");
    s.push_str(&format!("S: A{} B {}D{};\n",
        if on("clipn") { "^" } else if on("memn") { "@first" } else { "" },
        if on("modes") { "C2 " } else { "" },
        if on("utn") { ": my::D" } else { "" }));
    s.push_str(&format!("A: 'a'{} | \"x\"{}{};\n",
        if on("clipt") { "^" } else { "" },
        if on("memt") { "@mem" } else { "" },
        if on("ut") { ": MyT" } else if on("utt") { ": my::X" } else { "" }));
    s.push_str(&format!("B: {}'b';\n", if on("modes") { "<INITIAL, M2>" } else { "" }));
    if on("modes") {
        s.push_str("C2: <M2>'c';\n");
    }
    // attributes behind a lookahead: clipped (lac), member name (lam), user type (lau)
    let d_attr = format!("{}{}", if on("lac") { "^" } else if on("lam") { "@dm" } else { "" }, if on("lau") && !on("lac") { ": my::DT" } else { "" });
    s.push_str(&format!("D: {}{} | {}{};\n",
        if on("la") { "/d/ ?= 'e'" } else { "/d/" }, d_attr,
        if on("la") { "'f' ?! \"g\"" } else { "'f'" }, if on("lac") { "^" } else { "" }));
    s
}

pub fn model(gc: &GrammarConfig) -> Value {
    json!({
        "start": gc.cfg.st,
        "type": format!("{:?}", gc.grammar_type),
        "title": format!("{:?}", gc.title),
        "comment": format!("{:?}", gc.comment),
        "user_types": gc.user_type_defs.iter().map(|d| format!("{d:?}")).collect::<Vec<_>>(),
        "nt_types": gc.nt_type_defs.iter().map(|d| format!("{d:?}")).collect::<Vec<_>>(),
        "t_type": format!("{:?}", gc.t_type_def),
        // transitions without the source locations of the %on directives
        "scanners": gc.scanner_configurations.iter().map(|s| {
            let tr: Vec<String> = s.transitions.iter().map(|(t, sw)| format!("{t} %{sw}")).collect();
            format!("{} #{} lc={:?} bc={:?} nl={} ws={} unmatched={} skip={:?} on={:?}", s.scanner_name, s.scanner_state,
                    s.line_comments, s.block_comments, s.auto_newline, s.auto_ws, s.allow_unmatched, s.skip_tokens, tr)
        }).collect::<Vec<_>>(),
        // what the property names: symbols with clipping, member names, user types, scanner states and
        // lookahead; the list/option markers canonicalisation attaches are not part of the PAR text
        "prods": gc.cfg.pr.iter().map(|p| {
            let rhs: Vec<String> = p.get_r().iter().map(|s| match s {
                parol::Symbol::N(n, a, u, m) => format!("N({n} clipped={} type={u:?} member={m:?})", *a == parol::SymbolAttribute::Clipped),
                parol::Symbol::T(parol::Terminal::Trm(t, k, st, a, u, m, l)) =>
                    format!("T({t:?} {k:?} states={st:?} clipped={} type={u:?} member={m:?} la={l:?})", *a == parol::SymbolAttribute::Clipped),
                other => format!("{other:?}"),
            }).collect();
            format!("{}: {}", p.get_n(), rhs.join(" "))
        }).collect::<Vec<_>>(),
    })
}

pub fn roundtrip(o: &mut Outcome, stage: &str, gc: &GrammarConfig, v: &Value) {
    o.evals += 1;
    let text = match parol::render_par_string(gc, false) {
        Ok(t) => t,
        Err(e) => {
            o.mismatch(&format!("render/{stage}"), json!("Ok"), json!(format!("{e:#}")));
            return;
        }
    };
    match parol::obtain_grammar_config_from_string(&text, false) {
        Ok(gc2) => o.trace.push(json!({"ev":"roundtrip","stage":stage,"a":model(gc),"b":model(&gc2),"rendered":text,"vec":v})),
        Err(e) => o.mismatch(&format!("reparse/{stage}"), json!("rendered text is accepted"), json!({"err": format!("{e:#}"), "text": text})),
    }
}

pub fn replay(v: &Value) -> Outcome {
    let mut o = Outcome::default();
    let par: String = if let Some(p) = v["par"].as_str() {
        p.to_string()
    } else {
        let flags: Vec<String> = v["flags"].as_array().unwrap().iter().map(|f| f.as_str().unwrap().to_string()).collect();
        template(&flags)
    };
    let gc0 = match std::panic::catch_unwind(std::panic::AssertUnwindSafe(|| parol::obtain_grammar_config_from_string(&par, false))) {
        Ok(Ok(g)) => g,
        Ok(Err(e)) => {
            if v.get("flags").is_some() {
                o.mismatch("template-rejected", json!("accepted"), json!({"err": format!("{e:#}"), "par": par}));
            } else {
                o.tag("rejected");
            }
            return o;
        }
        Err(_) => {
            o.tag("pipeline_panic(C26)");
            return o;
        }
    };
    o.tag("accepted");
    roundtrip(&mut o, "parsed", &gc0, v);
    // after transformation
    let ignored = gc0.unreachable_non_terminals_to_ignore.iter().cloned().collect();
    if let Ok(Ok(cfg)) = std::panic::catch_unwind(std::panic::AssertUnwindSafe(|| {
        parol::generators::grammar_trans::check_and_transform_grammar_with_ignored(&gc0.cfg, gc0.grammar_type, &ignored)
    })) {
        let mut gc = gc0.clone();
        gc.update_cfg(cfg);
        o.tag("transformed");
        roundtrip(&mut o, "transformed", &gc, v);
    }
    o
}
