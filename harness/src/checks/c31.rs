//! C31 — the real Recovery::levenshtein_distance on TLC's pairs; distance compared directly (GEN),
//! script recorded for Trace_Recovery.tla (TV).
use crate::Outcome;
use parol_runtime::verif::{EditOp, levenshtein_distance};
use serde_json::{Value, json};

pub fn replay(v: &Value) -> Outcome {
    let mut o = Outcome::default();
    let seq = |x: &Value| -> Vec<u16> { x.as_array().unwrap().iter().map(|y| y.as_u64().unwrap() as u16).collect() };
    let act = seq(&v["act"]);
    let exp = seq(&v["exp"]);
    let (d, ops) = levenshtein_distance(&act, &exp);
    o.evals += 1;
    if d as u64 != v["dist"].as_u64().unwrap() {
        o.mismatch("distance", v["dist"].clone(), json!(d));
    }
    if d > 0 {
        o.tag("nonzero_distance");
    }
    if !act.is_empty() && !exp.is_empty() && act.len() != exp.len() {
        o.tag("different_lengths");
    }
    let names: Vec<&str> = ops
        .iter()
        .map(|x| match x {
            EditOp::Keep => "Keep",
            EditOp::Insert => "Insert",
            EditOp::Delete => "Delete",
            EditOp::Replace => "Replace",
        })
        .collect();
    o.trace.push(json!({"ev":"lev","act":act,"exp":exp,"dist":d,"ops":names}));
    o
}
