//! C03 / C04 (+ LR side of C14, C17, C20): LALR(1) pipeline and run-time against Gen_LR vectors
//! (GEN leg) and recorded runs for LRParser.tla (TV leg).
use crate::Outcome;
use crate::checks::ll::tset;
use crate::checks::llrun::{DECLS, FOREIGN, all_strings, decorate, opts_json, plain, run_safe, verdict};
use crate::dynrt::{self, Algo, PTables, RunOpts};
use crate::gram::JG;
use parol::parser::parol_grammar::GrammarType;
use parol::{Symbol, Terminal};
use serde_json::{Value, json};
use std::panic::{AssertUnwindSafe, catch_unwind};

fn hash_str(s: &str) -> u64 {
    use std::hash::{Hash, Hasher};
    let mut h = std::collections::hash_map::DefaultHasher::new();
    s.hash(&mut h);
    h.finish()
}

pub fn replay(v: &Value) -> Outcome {
    let mut o = Outcome::default();
    let g: JG = serde_json::from_value(v["g"].clone()).expect("grammar");
    let n = v["n"].as_u64().unwrap() as usize;
    let lang = tset(&v["lang"]);
    let is_lalr = v["lalr"].as_bool().unwrap();
    let sample: usize = std::env::var("PV_TV_SAMPLE").ok().and_then(|s| s.parse().ok()).unwrap_or(2);
    let every: u64 = std::env::var("PV_TV_EVERY").ok().and_then(|s| s.parse().ok()).unwrap_or(1);
    let do_gen = std::env::var("PV_GEN").map(|s| s != "0").unwrap_or(true);
    let par = g.to_par(GrammarType::LALR1, DECLS);
    o.tag(if is_lalr { "oracle_LALR1" } else { "oracle_not_LALR1" });
    let built = match catch_unwind(AssertUnwindSafe(|| dynrt::build(&par, 1))) {
        Ok(Ok(b)) => b,
        Ok(Err(e)) => {
            o.tag(match e.stage {
                dynrt::Stage::Parse => "rejected_parse",
                dynrt::Stage::Check => "rejected_check",
                dynrt::Stage::Analyse => "rejected_conflict",
                dynrt::Stage::Generate => "rejected_generate",
            });
            if is_lalr && e.stage == dynrt::Stage::Analyse {
                o.tag("rejected_although_oracle_LALR1");
            }
            return o;
        }
        Err(e) => {
            // "parse-table construction completes without crashing" is C03's claim for LALR(1)
            // grammars; a crash on a grammar that is not LALR(1) is reported by C26 (no panic on any
            // grammar text) and only counted here
            if is_lalr {
                o.mismatch("pipeline-panic", json!("Ok or Err"), json!(crate::panic_msg(e)));
            } else {
                o.tag("panic_on_non_LALR1_grammar(C26)");
            }
            return o;
        }
    };
    let Algo::LR(_, resolved) = &built.algo else { panic!("LR expected") };
    let has_resolved = !resolved.is_empty();
    if !is_lalr && !has_resolved {
        // C04: never silently produce a table for a conflicting grammar
        o.mismatch(
            "silent-conflict",
            json!("Err or at least one resolved conflict (grammar is not LALR(1))"),
            json!("table without any reported conflict"),
        );
    }
    o.tag(if has_resolved { "resolved_conflicts" } else { "accepted_clean" });
    let tables = match dynrt::tables_from_source(&built.parser_source) {
        Ok(t) => t,
        Err(e) => {
            o.mismatch("generated-source", json!("readable tables"), json!(format!("{e:#}")));
            return o;
        }
    };
    let cfg = &built.gc.cfg;
    let tnames: Vec<String> = cfg.get_ordered_terminals().iter().map(|(t, ..)| t.to_string()).collect();
    let err_ty = tables.terminal_names.len() - 1;
    let ty_of = |name: &str| -> String {
        match tnames.iter().position(|t| t == name) {
            Some(i) => format!("#{}", i + 5),
            None => format!("#{err_ty}"),
        }
    };
    let mut alpha = g.terminals();
    alpha.push(FOREIGN.to_string());
    let words = all_strings(&alpha, n);
    let mut sentences = vec![];
    let mut nonsentences = vec![];
    for w in &words {
        let expected = lang.contains(w);
        if do_gen {
            let text = w.join(" ");
            // tables with resolved conflicts may loop on cyclic grammars (reported under C19); the
            // depth limit turns that into an error value instead of exhausting memory
            let ro = RunOpts { max_depth: Some(5000), ..Default::default() };
            let ev = run_safe(&tables, &text, ro);
            o.evals += 1;
            let (ok, kind) = verdict(&ev);
            if kind == "MaxParsingDepthExceeded" || kind == "UserError" {
                o.tag("resolved_table_runs_away");
            }
            if kind == "PANIC" {
                o.mismatch("panic", json!({"input": w}), ev.last().unwrap().clone());
            } else if ok && !expected {
                // C03 (clean) and C04 (resolved): success only on sentences
                o.mismatch("accepts-non-sentence", json!({"input": w, "sentence": false, "resolved": has_resolved}), json!({"ok": true}));
            } else if !ok && expected && !has_resolved {
                o.mismatch("rejects-sentence", json!({"input": w, "sentence": true}), json!({"ok": false, "err": kind}));
            }
        }
        if expected {
            sentences.push(w.clone());
        } else {
            nonsentences.push(w.clone());
        }
    }
    // one parser object for all inputs (clean tables only): a failed run must not leave state behind
    if do_gen && !has_resolved {
        let inputs: Vec<String> = words.iter().map(|w| w.join(" ")).collect();
        match std::panic::catch_unwind(std::panic::AssertUnwindSafe(|| dynrt::run_reuse(&tables, &inputs, 5000))) {
            Ok(oks) => {
                for (w, ok) in words.iter().zip(oks) {
                    o.evals += 1;
                    if ok != lang.contains(w) {
                        o.mismatch("reused-parser-verdict", json!({"input": w, "sentence": lang.contains(w)}), json!({"ok": ok, "note": "same parser object used for all inputs in order"}));
                        break;
                    }
                }
            }
            Err(e) => o.mismatch("panic", json!({"input": "reused parser"}), json!({"err": {"kind": "PANIC", "msg": crate::panic_msg(e)}})),
        }
    }
    let h0 = hash_str(&v["g"].to_string());
    // TV for tables without resolved conflicts (C03); resolved tables are covered by the GEN leg (C04)
    if sample == 0 || h0 % every != 0 || has_resolved {
        return o;
    }
    // ---- TV
    let prods: Vec<Value> = cfg
        .pr
        .iter()
        .map(|p| {
            let rhs: Vec<String> = p
                .get_r()
                .iter()
                .map(|s| match s {
                    Symbol::N(n, ..) => n.clone(),
                    Symbol::T(Terminal::Trm(t, ..)) => ty_of(t),
                    _ => "?".into(),
                })
                .collect();
            json!({"lhs": p.get_n(), "rhs": rhs})
        })
        .collect();
    let nts: Vec<String> = cfg.get_non_terminal_set().into_iter().collect();
    // the tables must agree with the grammar on production lengths and left-hand sides (C21 in small)
    if let PTables::LR(lr) = &tables.p {
        for (i, p) in lr.productions.iter().enumerate() {
            if i >= cfg.pr.len() || p.len != cfg.pr[i].len() || tables.non_terminals[p.lhs] != cfg.pr[i].get_n_str() {
                o.mismatch("lr-production-table", json!(prods.get(i)), json!({"lhs": p.lhs, "len": p.len}));
            }
        }
    }
    o.trace.push(json!({"ev":"grammar","g":{"start": cfg.st, "nts": nts, "prods": prods},
                        "n": n, "resolved": has_resolved, "vec": v}));
    let pick = |xs: &Vec<Vec<String>>, m: usize, salt: u64| -> Vec<Vec<String>> {
        let mut idx: Vec<usize> = (0..xs.len()).collect();
        idx.sort_by_key(|i| (std::cmp::Reverse(xs[*i].len()), hash_str(&format!("{h0}{salt}{i}"))));
        idx.into_iter().take(m).map(|i| xs[i].clone()).collect()
    };
    let chosen: Vec<Vec<String>> = pick(&sentences, sample, 1)
        .into_iter()
        .chain(pick(&nonsentences, sample.div_ceil(2), 2))
        .collect();
    for w in chosen {
        let input: Vec<String> = w.iter().map(|t| ty_of(t)).collect();
        let mut first = true;
        for variant in 0..3u64 {
            let (text, offs) = if variant == 0 { plain(&w) } else { decorate(&w, h0 ^ (variant * 7919)) };
            let variants: Vec<(RunOpts, bool)> = vec![
                // every run carries a depth limit: a table that runs away ends in an error value
                (RunOpts { max_depth: Some(5000), ..Default::default() }, true),
                (RunOpts { trim: true, max_depth: Some(5000), ..Default::default() }, false),
                (RunOpts { max_depth: Some(2 + variant as usize), ..Default::default() }, false),
                (RunOpts { max_depth: Some(1), trim: true, ..Default::default() }, false),
                (RunOpts { max_depth: Some(64), ..Default::default() }, false),
            ];
            for (ro, is_ref) in variants {
                let evs = run_safe(&tables, &text, ro);
                o.trace.push(json!({"ev":"run","input": input, "offs": offs, "text": text, "len": text.len(),
                                    "opts": opts_json(&ro), "ref": is_ref, "newinput": first,
                                    "ok": verdict(&evs).0}));
                first = false;
                o.trace.extend(evs);
                o.evals += 1;
            }
        }
    }
    o
}
