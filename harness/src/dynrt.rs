//! Dynamic run-time: turn a PAR grammar text into a *running* parol parser without invoking rustc.
//!
//! parol's real pipeline produces the real generated parser source text.  The tables are then
//! read back from that text with `syn` (const initialisers) and the `scanner!{}` macro body is fed
//! through the public `scnr2_generate` pipeline, i.e. exactly the code the proc-macro runs.
//! The real `parol_runtime::{LLKParser, LRParser, TokenStream}` then run on those tables.

use anyhow::{Context, Result, anyhow, bail};
use parol::analysis::lalr1_parse_table::LRResolvedConflict;
use parol::parser::parol_grammar::GrammarType;
use parol::{
    CommonGeneratorConfig, GrammarConfig, LRParseTable as ALRParseTable,
    LookaheadDFA as ALookaheadDFA, ParserGeneratorConfig,
};
use parol_runtime::lr_parser::{LR1State, LRAction, LRParseTable, LRParser, LRProduction};
use parol_runtime::parser::parse_tree_type::TreeConstruct;
use parol_runtime::parser::{LLKParser, LookaheadDFA, ParseType, Production, Trans};
use parol_runtime::{ParolError, ParseTreeType, ParserError, Token, TokenStream, UserActionsTrait};
use serde_json::{Value, json};
use std::cell::RefCell;
use std::collections::BTreeMap;
use std::rc::Rc;

// ------------------------------------------------------------------------------------------------
// Pipeline
// ------------------------------------------------------------------------------------------------

#[derive(Debug, Clone, Default)]
pub struct GenCfg {
    pub trim: bool,
    pub norec: bool,
    pub max_depth: Option<usize>,
}
impl CommonGeneratorConfig for GenCfg {
    fn user_type_name(&self) -> &str {
        "G"
    }
    fn module_name(&self) -> &str {
        "g"
    }
    fn minimize_boxed_types(&self) -> bool {
        false
    }
    fn range(&self) -> bool {
        false
    }
    fn node_kind_enums(&self) -> bool {
        false
    }
}
impl ParserGeneratorConfig for GenCfg {
    fn trim_parse_tree(&self) -> bool {
        self.trim
    }
    fn recovery_disabled(&self) -> bool {
        self.norec
    }
    fn max_parsing_depth(&self) -> Option<usize> {
        self.max_depth
    }
}

pub enum Algo {
    LL(BTreeMap<String, ALookaheadDFA>),
    LR(ALRParseTable, Vec<LRResolvedConflict>),
}

pub struct Built {
    /// grammar config as parsed (untransformed cfg)
    pub gc0: GrammarConfig,
    /// grammar config with the transformed cfg and final lookahead size
    pub gc: GrammarConfig,
    pub algo: Algo,
    pub lexer_source: String,
    pub parser_source: String,
}

/// Stage at which the pipeline stopped with an `Err`
#[derive(Debug, Clone, Copy, PartialEq, Eq)]
pub enum Stage {
    Parse,
    Check,
    Analyse,
    Generate,
}
impl Stage {
    pub fn name(&self) -> &'static str {
        match self {
            Stage::Parse => "parse",
            Stage::Check => "check",
            Stage::Analyse => "analyse",
            Stage::Generate => "generate",
        }
    }
}

pub struct BuildErr {
    pub stage: Stage,
    pub err: anyhow::Error,
    /// what was available when it failed
    pub gc0: Option<GrammarConfig>,
    pub gc: Option<GrammarConfig>,
}

/// The same sequence `parol::build::GrammarGenerator` runs: parse → expand → post_process →
/// write_output (into strings).
pub fn build(par: &str, max_k: usize) -> std::result::Result<Built, Box<BuildErr>> {
    let gc0 = parol::obtain_grammar_config_from_string(par, false).map_err(|e| {
        Box::new(BuildErr {
            stage: Stage::Parse,
            err: e,
            gc0: None,
            gc: None,
        })
    })?;
    build_from_config(gc0, max_k)
}

pub fn build_from_config(
    gc0: GrammarConfig,
    max_k: usize,
) -> std::result::Result<Built, Box<BuildErr>> {
    let ignored = gc0
        .unreachable_non_terminals_to_ignore
        .iter()
        .cloned()
        .collect::<std::collections::BTreeSet<String>>();
    let cfg = parol::generators::grammar_trans::check_and_transform_grammar_with_ignored(
        &gc0.cfg,
        gc0.grammar_type,
        &ignored,
    )
    .map_err(|e| {
        Box::new(BuildErr {
            stage: Stage::Check,
            err: e.into(),
            gc0: Some(gc0.clone()),
            gc: None,
        })
    })?;
    let mut gc = gc0.clone();
    gc.update_cfg(cfg);
    let algo = match gc.grammar_type {
        GrammarType::LLK => {
            let dfas = parol::calculate_lookahead_dfas(&gc, max_k).map_err(|e| {
                Box::new(BuildErr {
                    stage: Stage::Analyse,
                    err: e,
                    gc0: Some(gc0.clone()),
                    gc: Some(gc.clone()),
                })
            })?;
            let k = dfas.values().map(|d| d.k).max().unwrap_or(0);
            gc.update_lookahead_size(k);
            Algo::LL(dfas)
        }
        GrammarType::LALR1 => {
            let (t, r) = parol::calculate_lalr1_parse_table(&gc).map_err(|e| {
                Box::new(BuildErr {
                    stage: Stage::Analyse,
                    err: e,
                    gc0: Some(gc0.clone()),
                    gc: Some(gc.clone()),
                })
            })?;
            gc.update_lookahead_size(1);
            Algo::LR(t, r)
        }
    };
    let gen_cfg = GenCfg::default();
    let generr = |e: anyhow::Error, gc0: &GrammarConfig, gc: &GrammarConfig| {
        Box::new(BuildErr {
            stage: Stage::Generate,
            err: e,
            gc0: Some(gc0.clone()),
            gc: Some(gc.clone()),
        })
    };
    let lexer_source =
        parol::generate_lexer_source(&gc, &gen_cfg).map_err(|e| generr(e, &gc0, &gc))?;
    let parser_source = match &algo {
        Algo::LL(dfas) => parol::generate_parser_source(&gc, &lexer_source, &gen_cfg, dfas, false),
        Algo::LR(t, _) => {
            parol::generate_lalr1_parser_source(&gc, &lexer_source, &gen_cfg, t, false)
        }
    }
    .map_err(|e| generr(e, &gc0, &gc))?;
    Ok(Built {
        gc0,
        gc,
        algo,
        lexer_source,
        parser_source,
    })
}

// ------------------------------------------------------------------------------------------------
// Evaluating the const initialisers of the generated source
// ------------------------------------------------------------------------------------------------

#[derive(Debug, Clone)]
pub enum Val {
    Int(i64),
    Str(String),
    Bool(bool),
    List(Vec<Val>),
    Struct(String, Vec<(String, Val)>),
    Call(String, Vec<Val>),
    Tuple(Vec<Val>),
    Path(String),
}

fn path_str(p: &syn::Path) -> String {
    p.segments
        .iter()
        .map(|s| s.ident.to_string())
        .collect::<Vec<_>>()
        .join("::")
}

fn eval(e: &syn::Expr) -> Result<Val> {
    use syn::Expr::*;
    Ok(match e {
        Reference(r) => eval(&r.expr)?,
        Paren(p) => eval(&p.expr)?,
        Group(g) => eval(&g.expr)?,
        Array(a) => Val::List(a.elems.iter().map(eval).collect::<Result<_>>()?),
        Tuple(t) => Val::Tuple(t.elems.iter().map(eval).collect::<Result<_>>()?),
        Struct(s) => Val::Struct(
            path_str(&s.path),
            s.fields
                .iter()
                .map(|f| {
                    let name = match &f.member {
                        syn::Member::Named(i) => i.to_string(),
                        syn::Member::Unnamed(i) => i.index.to_string(),
                    };
                    Ok((name, eval(&f.expr)?))
                })
                .collect::<Result<_>>()?,
        ),
        Call(c) => {
            let f = match &*c.func {
                Path(p) => path_str(&p.path),
                other => bail!("unsupported callee {other:?}"),
            };
            Val::Call(f, c.args.iter().map(eval).collect::<Result<_>>()?)
        }
        Path(p) => Val::Path(path_str(&p.path)),
        Lit(l) => match &l.lit {
            syn::Lit::Int(i) => Val::Int(i.base10_parse::<i64>()?),
            syn::Lit::Str(s) => Val::Str(s.value()),
            syn::Lit::Bool(b) => Val::Bool(b.value),
            other => bail!("unsupported literal {other:?}"),
        },
        Unary(u) => match (&u.op, eval(&u.expr)?) {
            (syn::UnOp::Neg(_), Val::Int(i)) => Val::Int(-i),
            _ => bail!("unsupported unary expression"),
        },
        other => bail!("unsupported expression kind in generated const: {other:?}"),
    })
}

impl Val {
    pub fn int(&self) -> Result<i64> {
        match self {
            Val::Int(i) => Ok(*i),
            o => bail!("expected int, got {o:?}"),
        }
    }
    pub fn list(&self) -> Result<&Vec<Val>> {
        match self {
            Val::List(l) => Ok(l),
            o => bail!("expected list, got {o:?}"),
        }
    }
    pub fn field(&self, n: &str) -> Result<&Val> {
        match self {
            Val::Struct(_, fs) => fs
                .iter()
                .find(|(k, _)| k == n)
                .map(|(_, v)| v)
                .ok_or_else(|| anyhow!("no field {n}")),
            o => bail!("expected struct, got {o:?}"),
        }
    }
}

fn leak<T>(v: Vec<T>) -> &'static [T] {
    Box::leak(v.into_boxed_slice())
}
fn leak_str(s: &str) -> &'static str {
    Box::leak(s.to_owned().into_boxed_str())
}

// ------------------------------------------------------------------------------------------------
// Tables
// ------------------------------------------------------------------------------------------------

pub struct LLTables {
    pub start: usize,
    pub automata: &'static [LookaheadDFA],
    pub productions: &'static [Production],
}
pub struct LRTables {
    pub start: usize,
    pub table: &'static LRParseTable,
    pub productions: &'static [LRProduction],
}
pub enum PTables {
    LL(LLTables),
    LR(LRTables),
}

pub struct ScannerTables {
    pub modes: &'static [scnr2::ScannerMode],
    /// (start, end, class) sorted by start
    pub intervals: &'static [(char, char, usize)],
    /// the raw macro body tokens (for C18/C21)
    pub macro_modes: Vec<MacroMode>,
}

#[derive(Debug, Clone)]
pub struct MacroMode {
    pub name: String,
    /// (pattern, token type, lookahead: None | Some((positive, pattern)))
    pub tokens: Vec<(String, usize, Option<(bool, String)>)>,
    /// (token type, action, target)
    pub transitions: Vec<(usize, String, Option<String>)>,
}

pub struct Tables {
    pub terminal_names: &'static [&'static str],
    pub non_terminals: &'static [&'static str],
    pub max_k: usize,
    pub skip_tokens: &'static [&'static [u16]],
    pub p: PTables,
    pub scanner: ScannerTables,
    /// all evaluated consts, for C21
    pub consts: BTreeMap<String, Val>,
}

pub fn match_fn(
    iv: &'static [(char, char, usize)],
) -> impl Fn(char) -> Option<usize> + Clone + 'static {
    move |c: char| {
        use std::cmp::Ordering;
        iv.binary_search_by(|(s, e, _)| {
            if c < *s {
                Ordering::Greater
            } else if c > *e {
                Ordering::Less
            } else {
                Ordering::Equal
            }
        })
        .ok()
        .map(|i| iv[i].2)
    }
}

fn conv_dfa(d: &scnr2_generate::dfa::Dfa, ncc: usize) -> Result<scnr2::Dfa> {
    let mut states = Vec::new();
    for s in &d.states {
        let mut tr: Vec<Option<scnr2::DfaTransition>> = vec![None; ncc];
        for t in &s.transitions {
            tr[t.elementary_interval_index.as_usize()] = Some(scnr2::DfaTransition {
                to: t.target.as_usize(),
            });
        }
        let mut acc = Vec::new();
        for p in &s.accept_data {
            use scnr2_generate::pattern::{AutomatonType, Lookahead};
            let la = match &p.lookahead {
                Lookahead::None => scnr2::Lookahead::None,
                Lookahead::Positive(AutomatonType::Dfa(d)) => {
                    scnr2::Lookahead::Positive(conv_dfa(d, ncc)?)
                }
                Lookahead::Negative(AutomatonType::Dfa(d)) => {
                    scnr2::Lookahead::Negative(conv_dfa(d, ncc)?)
                }
                _ => bail!("lookahead not converted to DFA"),
            };
            acc.push(scnr2::AcceptData {
                token_type: p.terminal_type.as_usize(),
                priority: p.priority,
                lookahead: la,
            });
        }
        states.push(scnr2::DfaState {
            transitions: leak(tr),
            accept_data: leak(acc),
        });
    }
    Ok(scnr2::Dfa {
        states: leak(states),
    })
}

/// Same steps as `scnr2_generate::generate::generate`, producing run-time values instead of tokens.
pub fn build_scanner(tokens: proc_macro2::TokenStream) -> Result<ScannerTables> {
    use scnr2_generate::{
        character_classes::CharacterClasses, dfa::Dfa, nfa::Nfa, scanner_data::ScannerData,
        scanner_data::TransitionToNumericMode,
    };
    let macro_modes = parse_macro_modes(tokens.clone())?;
    let data: ScannerData =
        syn::parse2(tokens).map_err(|e| anyhow!("scanner macro body does not parse: {e}"))?;
    let modes = data
        .build_scanner_modes()
        .map_err(|e| anyhow!("build_scanner_modes: {e}"))?;
    let mut nfas = modes
        .iter()
        .map(|m| Nfa::build_from_patterns(&m.patterns).map_err(|e| anyhow!("nfa: {e}")))
        .collect::<Result<Vec<_>>>()?;
    let mut cc = CharacterClasses::new();
    for n in &nfas {
        n.collect_character_classes(&mut cc);
    }
    cc.create_disjoint_character_classes();
    for n in &mut nfas {
        n.convert_to_disjoint_character_classes(&cc);
    }
    let dfas = nfas
        .iter()
        .map(|n| Dfa::try_from(n).map_err(|e| anyhow!("dfa: {e}")))
        .collect::<Result<Vec<_>>>()?;
    let ncc = cc.intervals.len();
    let mut iv = Vec::new();
    for e in &cc.elementary_intervals {
        let cls = cc
            .intervals
            .iter()
            .position(|g| g.contains(e))
            .ok_or_else(|| anyhow!("interval without group"))?;
        iv.push((*e.start(), *e.end(), cls));
    }
    iv.sort();
    let mut rt_modes = Vec::new();
    for (i, m) in modes.iter().enumerate() {
        let tr = m
            .transitions
            .iter()
            .map(|t| match t {
                TransitionToNumericMode::SetMode(a, b) => scnr2::Transition::SetMode(*a, *b),
                TransitionToNumericMode::PushMode(a, b) => scnr2::Transition::PushMode(*a, *b),
                TransitionToNumericMode::PopMode(a) => scnr2::Transition::PopMode(*a),
            })
            .collect::<Vec<_>>();
        rt_modes.push(scnr2::ScannerMode {
            name: leak_str(&m.name),
            transitions: leak(tr),
            dfa: conv_dfa(&dfas[i], ncc)?,
        });
    }
    Ok(ScannerTables {
        modes: leak(rt_modes),
        intervals: leak(iv),
        macro_modes,
    })
}

/// A small independent reader of the macro body (used by C18/C21 to see token numbers per mode).
fn parse_macro_modes(tokens: proc_macro2::TokenStream) -> Result<Vec<MacroMode>> {
    use proc_macro2::TokenTree as TT;
    let top: Vec<TT> = tokens.into_iter().collect();
    // Name { mode X { ... } mode Y { ... } }
    let body = match top.get(1) {
        Some(TT::Group(g)) => g.stream(),
        _ => bail!("scanner macro: expected `Name {{ .. }}`"),
    };
    let toks: Vec<TT> = body.into_iter().collect();
    let mut modes = Vec::new();
    let mut i = 0;
    while i < toks.len() {
        match (&toks[i], toks.get(i + 1), toks.get(i + 2)) {
            (TT::Ident(kw), Some(TT::Ident(name)), Some(TT::Group(g))) if kw == "mode" => {
                let mut mm = MacroMode {
                    name: name.to_string(),
                    tokens: vec![],
                    transitions: vec![],
                };
                let inner: Vec<TT> = g.stream().into_iter().collect();
                // split at ';'
                let mut stmt: Vec<TT> = vec![];
                for t in inner {
                    if let TT::Punct(p) = &t
                        && p.as_char() == ';'
                    {
                        parse_stmt(&stmt, &mut mm)?;
                        stmt.clear();
                        continue;
                    }
                    stmt.push(t);
                }
                if !stmt.is_empty() {
                    bail!("scanner macro: trailing tokens in mode");
                }
                modes.push(mm);
                i += 3;
            }
            _ => bail!("scanner macro: unexpected token {:?}", toks[i].to_string()),
        }
    }
    Ok(modes)
}

fn lit_str(t: &proc_macro2::TokenTree) -> Result<String> {
    let l: syn::LitStr = syn::parse2(std::iter::once(t.clone()).collect())?;
    Ok(l.value())
}
fn lit_int(t: &proc_macro2::TokenTree) -> Result<usize> {
    let l: syn::LitInt = syn::parse2(std::iter::once(t.clone()).collect())?;
    Ok(l.base10_parse()?)
}

fn parse_stmt(s: &[proc_macro2::TokenTree], mm: &mut MacroMode) -> Result<()> {
    use proc_macro2::TokenTree as TT;
    let kw = match s.first() {
        Some(TT::Ident(i)) => i.to_string(),
        _ => bail!("scanner macro: statement must start with ident"),
    };
    if kw == "token" {
        // token PAT [not] [followed by PAT] => N
        let pat = lit_str(&s[1])?;
        let mut j = 2;
        let mut la = None;
        if let TT::Ident(id) = &s[j] {
            let mut positive = true;
            if id == "not" {
                positive = false;
                j += 1;
            }
            // followed by
            j += 2;
            la = Some((positive, lit_str(&s[j])?));
            j += 1;
        }
        // => N
        j += 2;
        let n = lit_int(&s[j])?;
        mm.tokens.push((pat, n, la));
    } else if kw == "on" {
        let n = lit_int(&s[1])?;
        let act = s[2].to_string();
        let target = s.get(3).map(|t| t.to_string());
        mm.transitions.push((n, act, target));
    } else {
        bail!("scanner macro: unknown statement {kw}");
    }
    Ok(())
}

fn u(v: &Val) -> Result<usize> {
    Ok(v.int()? as usize)
}

pub fn tables_from_source(src: &str) -> Result<Tables> {
    let file: syn::File = syn::parse_str(src).context("generated source does not parse")?;
    let mut consts: BTreeMap<String, Val> = BTreeMap::new();
    let mut scanner_tokens = None;
    for item in &file.items {
        match item {
            syn::Item::Const(c) => {
                consts.insert(c.ident.to_string(), eval(&c.expr)?);
            }
            syn::Item::Static(s) => {
                consts.insert(s.ident.to_string(), eval(&s.expr)?);
            }
            syn::Item::Macro(m) if path_str(&m.mac.path).ends_with("scanner") => {
                scanner_tokens = Some(m.mac.tokens.clone());
            }
            _ => {}
        }
    }
    let get = |n: &str| consts.get(n).ok_or_else(|| anyhow!("const {n} missing"));
    let strs = |v: &Val| -> Result<&'static [&'static str]> {
        Ok(leak(
            v.list()?
                .iter()
                .map(|s| match s {
                    Val::Str(s) => Ok(leak_str(s)),
                    o => bail!("expected str, got {o:?}"),
                })
                .collect::<Result<Vec<_>>>()?,
        ))
    };
    let terminal_names = strs(get("TERMINAL_NAMES")?)?;
    let non_terminals = strs(get("NON_TERMINALS")?)?;
    let skip_tokens: &'static [&'static [u16]] = leak(
        get("SKIP_TOKENS_BY_SCANNER_STATE")?
            .list()?
            .iter()
            .map(|l| {
                Ok(leak(
                    l.list()?
                        .iter()
                        .map(|x| Ok(x.int()? as u16))
                        .collect::<Result<Vec<u16>>>()?,
                ))
            })
            .collect::<Result<Vec<&'static [u16]>>>()?,
    );
    let scanner = build_scanner(scanner_tokens.ok_or_else(|| anyhow!("no scanner! macro"))?)?;

    // start symbol index: first argument of the `LLKParser::new(..)` / `LRParser::new(..)` call
    let find_start = |needle: &str| -> Result<usize> {
        struct V<'a> {
            needle: &'a str,
            found: Option<usize>,
        }
        impl<'ast> syn::visit::Visit<'ast> for V<'_> {
            fn visit_expr_call(&mut self, c: &'ast syn::ExprCall) {
                if let syn::Expr::Path(p) = &*c.func
                    && path_str(&p.path) == self.needle
                    && let Some(a) = c.args.first()
                    && let Ok(Val::Int(i)) = eval(a)
                {
                    self.found = Some(i as usize);
                }
                syn::visit::visit_expr_call(self, c);
            }
        }
        let mut v = V {
            needle,
            found: None,
        };
        syn::visit::visit_file(&mut v, &file);
        v.found
            .ok_or_else(|| anyhow!("no {needle}(..) call in generated source"))
    };

    let (p, max_k) = if consts.contains_key("LOOKAHEAD_AUTOMATA") {
        let mut automata = Vec::new();
        for a in get("LOOKAHEAD_AUTOMATA")?.list()? {
            let trans = a
                .field("transitions")?
                .list()?
                .iter()
                .map(|t| match t {
                    Val::Call(n, args) if n == "Trans" && args.len() == 4 => Ok(Trans(
                        u(&args[0])?,
                        args[1].int()? as u16,
                        u(&args[2])?,
                        args[3].int()? as i32,
                    )),
                    o => bail!("expected Trans(..), got {o:?}"),
                })
                .collect::<Result<Vec<_>>>()?;
            automata.push(LookaheadDFA {
                prod0: a.field("prod0")?.int()? as i32,
                transitions: leak(trans),
                k: u(a.field("k")?)?,
            });
        }
        let mut productions = Vec::new();
        for pr in get("PRODUCTIONS")?.list()? {
            let rhs = pr
                .field("production")?
                .list()?
                .iter()
                .map(|s| match s {
                    Val::Call(n, a) if n == "ParseType::N" => Ok(ParseType::N(u(&a[0])?)),
                    Val::Call(n, a) if n == "ParseType::T" => Ok(ParseType::T(a[0].int()? as u16)),
                    o => bail!("expected ParseType, got {o:?}"),
                })
                .collect::<Result<Vec<_>>>()?;
            productions.push(Production {
                lhs: u(pr.field("lhs")?)?,
                production: leak(rhs),
                is_push_production: matches!(pr.field("is_push_production")?, Val::Bool(true)),
            });
        }
        (
            PTables::LL(LLTables {
                start: find_start("LLKParser::new")?,
                automata: leak(automata),
                productions: leak(productions),
            }),
            u(get("MAX_K")?)?,
        )
    } else {
        let pt = get("PARSE_TABLE")?;
        let actions = pt
            .field("actions")?
            .list()?
            .iter()
            .map(|a| match a {
                Val::Call(n, x) if n == "LRAction::Shift" => Ok(LRAction::Shift(u(&x[0])?)),
                Val::Call(n, x) if n == "LRAction::Reduce" => {
                    Ok(LRAction::Reduce(u(&x[0])?, u(&x[1])?))
                }
                Val::Path(n) if n == "LRAction::Accept" => Ok(LRAction::Accept),
                o => bail!("expected LRAction, got {o:?}"),
            })
            .collect::<Result<Vec<_>>>()?;
        let mut states = Vec::new();
        for s in pt.field("states")?.list()? {
            let pair = |v: &Val| -> Result<(usize, usize)> {
                match v {
                    Val::Tuple(t) if t.len() == 2 => Ok((u(&t[0])?, u(&t[1])?)),
                    o => bail!("expected pair, got {o:?}"),
                }
            };
            let acts = s
                .field("actions")?
                .list()?
                .iter()
                .map(|v| pair(v).map(|(a, b)| (a as u16, b)))
                .collect::<Result<Vec<_>>>()?;
            let gotos = s
                .field("gotos")?
                .list()?
                .iter()
                .map(pair)
                .collect::<Result<Vec<_>>>()?;
            states.push(LR1State {
                actions: leak(acts),
                gotos: leak(gotos),
            });
        }
        let table: &'static LRParseTable = Box::leak(Box::new(LRParseTable {
            actions: leak(actions),
            states: leak(states),
        }));
        let mut productions = Vec::new();
        for pr in get("PRODUCTIONS")?.list()? {
            productions.push(LRProduction {
                lhs: u(pr.field("lhs")?)?,
                len: u(pr.field("len")?)?,
                is_push_production: matches!(pr.field("is_push_production")?, Val::Bool(true)),
            });
        }
        (
            PTables::LR(LRTables {
                start: find_start("LRParser::new")?,
                table,
                productions: leak(productions),
            }),
            1,
        )
    };
    Ok(Tables {
        terminal_names,
        non_terminals,
        max_k,
        skip_tokens,
        p,
        scanner,
        consts,
    })
}

// ------------------------------------------------------------------------------------------------
// Recording
// ------------------------------------------------------------------------------------------------

pub type Log = Rc<RefCell<Vec<Value>>>;

pub fn tok_json(t: &Token<'_>) -> Value {
    json!({
        "ty": t.token_type,
        "sym": format!("#{}", t.token_type),
        "text": t.text(),
        "s": t.location.start,
        "e": t.location.end,
        "sl": t.location.start_line,
        "sc": t.location.start_column,
        "el": t.location.end_line,
        "ec": t.location.end_column,
        "skip": t.is_effectively_skip_token(),
        "no": t.token_number,
    })
}

pub struct RecTree {
    pub log: Log,
}
impl<'t> TreeConstruct<'t> for RecTree {
    type Error = ParolError;
    type Tree = ();
    fn open_non_terminal(
        &mut self,
        name: &'static str,
        _size_hint: Option<usize>,
    ) -> std::result::Result<(), ParolError> {
        self.log.borrow_mut().push(json!({"ev":"open","nt":name}));
        Ok(())
    }
    fn close_non_terminal(&mut self) -> std::result::Result<(), ParolError> {
        self.log.borrow_mut().push(json!({"ev":"close"}));
        Ok(())
    }
    fn add_token(&mut self, token: &Token<'t>) -> std::result::Result<(), ParolError> {
        let mut v = tok_json(token);
        v["ev"] = json!("tok");
        self.log.borrow_mut().push(v);
        Ok(())
    }
    fn build(self) -> std::result::Result<(), ParolError> {
        Ok(())
    }
}

pub struct RecActions {
    pub log: Log,
    /// semantic actions seen so far; beyond ACTION_LIMIT the run is stopped with a user error (an LR table
    /// with resolved conflicts can reduce a unit production `B: B` forever without growing its stack, which
    /// no depth limit catches)
    pub count: usize,
}
pub const ACTION_LIMIT: usize = 5_000;
impl<'t> UserActionsTrait<'t> for RecActions {
    fn call_semantic_action_for_production_number(
        &mut self,
        prod_num: usize,
        children: &[ParseTreeType<'t>],
    ) -> parol_runtime::Result<()> {
        let ch = children
            .iter()
            .map(|c| match c {
                ParseTreeType::T(t) => {
                    json!({"k":"t","ty":t.token_type,"sym":format!("#{}", t.token_type),"text":t.text(),"s":t.location.start})
                }
                ParseTreeType::N(n) => json!({"k":"n","nt":n}),
            })
            .collect::<Vec<_>>();
        self.log
            .borrow_mut()
            .push(json!({"ev":"action","prod":prod_num,"n":children.len(),"ch":ch}));
        self.count += 1;
        if self.count > ACTION_LIMIT {
            return Err(ParolError::UserError(anyhow::anyhow!("verif: action limit exceeded")));
        }
        Ok(())
    }
    fn on_comment(&mut self, token: Token<'t>) {
        let mut v = tok_json(&token);
        v["ev"] = json!("comment");
        self.log.borrow_mut().push(v);
    }
}

#[derive(Debug, Clone, Copy, PartialEq, Eq)]
pub struct RunOpts {
    pub trim: bool,
    pub recovery: bool,
    pub max_depth: Option<usize>,
    /// lookahead size given to the token stream (None = the generated MAX_K)
    pub k: Option<usize>,
}
impl Default for RunOpts {
    fn default() -> Self {
        RunOpts {
            trim: false,
            recovery: true,
            max_depth: None,
            k: None,
        }
    }
}

pub fn err_json(e: &ParolError) -> Value {
    match e {
        ParolError::ParserError(pe) => match pe {
            ParserError::SyntaxErrors { entries } => json!({
                "kind":"SyntaxErrors",
                "n": entries.len(),
                "locs": entries.iter().map(|e| json!([e.error_location.start, e.error_location.end])).collect::<Vec<_>>(),
                "causes": entries.iter().map(|e| e.cause.lines().next().unwrap_or("").to_string()).collect::<Vec<_>>(),
            }),
            ParserError::UnprocessedInput { .. } => json!({"kind":"UnprocessedInput"}),
            ParserError::PredictionError { cause } => {
                json!({"kind":"PredictionError","cause":cause})
            }
            ParserError::TooManyErrors { count } => json!({"kind":"TooManyErrors","n":count}),
            ParserError::MaxParsingDepthExceeded { depth } => {
                json!({"kind":"MaxParsingDepthExceeded","depth":depth})
            }
            ParserError::RecoveryFailed => json!({"kind":"RecoveryFailed"}),
            ParserError::InternalError(s) => json!({"kind":"InternalError","msg":s}),
            ParserError::DataError(s) => json!({"kind":"DataError","msg":s}),
            ParserError::TreeError { source } => {
                json!({"kind":"TreeError","msg":source.to_string()})
            }
            ParserError::Unsupported { context, .. } => {
                json!({"kind":"Unsupported","msg":context})
            }
        },
        ParolError::LexerError(le) => json!({"kind":"LexerError","msg":le.to_string()}),
        ParolError::UserError(ue) => json!({"kind":"UserError","msg":ue.to_string()}),
    }
}

/// Runs the real run-time parser on `input` and returns the event list ending with a `result`
/// event.  Panics propagate (callers wrap in `catch_unwind`).
pub fn run(tables: &Tables, input: &str, opts: RunOpts) -> Vec<Value> {
    let log: Log = Rc::new(RefCell::new(Vec::new()));
    let mut tree = RecTree { log: log.clone() };
    let mut acts = RecActions { log: log.clone(), count: 0 };
    let mf: &'static _ = Box::leak(Box::new(match_fn(tables.scanner.intervals)));
    let scanner_impl = Rc::new(RefCell::new(scnr2::ScannerImpl::new(tables.scanner.modes)));
    let k = opts.k.unwrap_or(tables.max_k);
    let stream = match TokenStream::new_with_skip_tokens(
        input,
        "in.txt",
        scanner_impl,
        mf,
        k,
        tables.skip_tokens,
    ) {
        Ok(s) => s,
        Err(e) => {
            log.borrow_mut()
                .push(json!({"ev":"result","ok":false,"err":{"kind":"StreamInit","msg":e.to_string()}}));
            return log.take();
        }
    };
    let res = match &tables.p {
        PTables::LL(t) => {
            let mut p = LLKParser::new(
                t.start,
                t.automata,
                t.productions,
                tables.terminal_names,
                tables.non_terminals,
            );
            if opts.trim {
                p.trim_parse_tree();
            }
            if !opts.recovery {
                p.disable_recovery();
            }
            if let Some(d) = opts.max_depth {
                p.set_max_parsing_depth(d);
            }
            p.parse_into(&mut tree, stream, &mut acts)
        }
        PTables::LR(t) => {
            let mut p = LRParser::new(
                t.start,
                t.table,
                t.productions,
                tables.terminal_names,
                tables.non_terminals,
            );
            if opts.trim {
                p.trim_parse_tree();
            }
            if let Some(d) = opts.max_depth {
                p.set_max_parsing_depth(d);
            }
            p.parse_into(&mut tree, stream, &mut acts)
        }
    };
    match res {
        Ok(()) => log.borrow_mut().push(json!({"ev":"result","ok":true})),
        Err(e) => log
            .borrow_mut()
            .push(json!({"ev":"result","ok":false,"err":err_json(&e)})),
    }
    drop(tree);
    drop(acts);
    log.take()
}

/// One parser object for a whole sequence of inputs (a fresh token stream each): returns per input
/// whether the parse succeeded.  State carried over from an earlier (failed) run would show up as a
/// verdict that differs from the one a fresh parser gives.
pub fn run_reuse(tables: &Tables, inputs: &[String], max_depth: usize) -> Vec<bool> {
    let mf: &'static _ = Box::leak(Box::new(match_fn(tables.scanner.intervals)));
    let mut out = Vec::new();
    enum P<'t> {
        LL(LLKParser<'t>),
        LR(LRParser<'t>),
    }
    let mut p = match &tables.p {
        PTables::LL(t) => {
            let mut p = LLKParser::new(t.start, t.automata, t.productions, tables.terminal_names, tables.non_terminals);
            p.set_max_parsing_depth(max_depth);
            P::LL(p)
        }
        PTables::LR(t) => {
            let mut p = LRParser::new(t.start, t.table, t.productions, tables.terminal_names, tables.non_terminals);
            p.set_max_parsing_depth(max_depth);
            P::LR(p)
        }
    };
    for input in inputs {
        let log: Log = Rc::new(RefCell::new(Vec::new()));
        let mut tree = RecTree { log: log.clone() };
        let mut acts = RecActions { log: log.clone(), count: 0 };
        let scanner_impl = Rc::new(RefCell::new(scnr2::ScannerImpl::new(tables.scanner.modes)));
        let Ok(stream) = TokenStream::new_with_skip_tokens(input, "in.txt", scanner_impl, mf, tables.max_k, tables.skip_tokens) else {
            out.push(false);
            continue;
        };
        let res = match &mut p {
            P::LL(p) => p.parse_into(&mut tree, stream, &mut acts),
            P::LR(p) => p.parse_into(&mut tree, stream, &mut acts),
        };
        out.push(res.is_ok());
    }
    out
}

/// Tokenise only: all tokens the `TokenStream` delivers (skip tokens included) with the given
/// lookahead size and consumption schedule (`eager` = look ahead k-1 before each consume).
pub fn tokenize(tables: &Tables, input: &str, k: usize, schedule: u8) -> Result<Vec<Value>> {
    let mf: &'static _ = Box::leak(Box::new(match_fn(tables.scanner.intervals)));
    let scanner_impl = Rc::new(RefCell::new(scnr2::ScannerImpl::new(tables.scanner.modes)));
    let mut ts =
        TokenStream::new_with_skip_tokens(input, "in.txt", scanner_impl, mf, k, tables.skip_tokens)
            .map_err(|e| anyhow!("{e}"))?;
    let mut out = Vec::new();
    let mut step = 0usize;
    loop {
        for t in ts.take_skip_tokens() {
            out.push(tok_json(&t));
        }
        match schedule {
            1 => {
                for i in 0..k {
                    let _ = ts.lookahead(i);
                }
            }
            2 => {
                let _ = ts.lookahead(step % k);
            }
            _ => {}
        }
        let t = ts.lookahead(0).map_err(|e| anyhow!("{e}"))?;
        if t.token_type == 0 {
            break;
        }
        let mode_before = ts.current_scanner_index();
        let c = ts.consume().map_err(|e| anyhow!("{e}"))?;
        let mut v = tok_json(&c);
        v["mode_after_read"] = json!(mode_before);
        out.push(v);
        step += 1;
        if step > 100_000 {
            bail!("tokenize: no progress");
        }
    }
    for t in ts.take_skip_tokens() {
        out.push(tok_json(&t));
    }
    Ok(out)
}

/// Calls the real `LookaheadDFA::eval` of non-terminal `nt` on a token stream over `text`.
/// Returns the predicted production or -1 for a prediction error.
pub fn eval_window(tables: &Tables, nt: usize, text: &str) -> Result<i64> {
    let PTables::LL(ll) = &tables.p else { bail!("LL tables expected") };
    let mf: &'static _ = Box::leak(Box::new(match_fn(tables.scanner.intervals)));
    let scanner_impl = Rc::new(RefCell::new(scnr2::ScannerImpl::new(tables.scanner.modes)));
    let mut ts = TokenStream::new_with_skip_tokens(
        text,
        "in.txt",
        scanner_impl,
        mf,
        tables.max_k,
        tables.skip_tokens,
    )
    .map_err(|e| anyhow!("{e}"))?;
    Ok(match ll.automata[nt].eval(&mut ts, nt) {
        Ok(p) => p as i64,
        Err(_) => -1,
    })
}
