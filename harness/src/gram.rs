//! JSON grammars (as produced by the TLA+ side) <-> parol grammars.
use parol::parser::parol_grammar::GrammarType;
use parol::{Cfg, Pr, Symbol, SymbolAttribute, Terminal, TerminalKind};
use serde::{Deserialize, Serialize};
use std::collections::BTreeSet;

#[derive(Debug, Clone, Serialize, Deserialize, PartialEq, Eq, Hash)]
pub struct JP {
    pub lhs: String,
    pub rhs: Vec<String>,
}

#[derive(Debug, Clone, Serialize, Deserialize, PartialEq, Eq, Hash)]
pub struct JG {
    pub start: String,
    pub nts: Vec<String>,
    pub prods: Vec<JP>,
}

impl JG {
    pub fn is_nt(&self, s: &str) -> bool {
        self.nts.iter().any(|n| n == s)
    }
    pub fn terminals(&self) -> Vec<String> {
        let mut v: Vec<String> = Vec::new();
        for p in &self.prods {
            for s in &p.rhs {
                if !self.is_nt(s) && !v.contains(s) {
                    v.push(s.clone());
                }
            }
        }
        v
    }
    pub fn reversed(&self) -> JG {
        let mut g = self.clone();
        g.prods.reverse();
        g
    }
    pub fn start_has_production(&self) -> bool {
        self.prods.iter().any(|p| p.lhs == self.start)
    }

    /// Build a `Cfg` value directly (terminals are Raw terminals in scanner state 0).
    pub fn to_cfg(&self) -> Cfg {
        let mut cfg = Cfg::with_start_symbol(&self.start);
        for p in &self.prods {
            let rhs = p
                .rhs
                .iter()
                .map(|s| {
                    if self.is_nt(s) {
                        Symbol::n(s)
                    } else {
                        Symbol::T(Terminal::Trm(
                            s.clone(),
                            TerminalKind::Raw,
                            vec![0],
                            SymbolAttribute::default(),
                            None,
                            None,
                            None,
                        ))
                    }
                })
                .collect::<Vec<_>>();
            cfg = cfg.add_pr(Pr::new(&p.lhs, rhs));
        }
        cfg
    }

    /// PAR text for the grammar; terminals become raw literals 'a'.
    pub fn to_par(&self, ty: GrammarType, extra_decls: &str) -> String {
        let mut s = format!("%start {}\n%title \"t\"\n%comment \"c\"\n", self.start);
        if ty == GrammarType::LALR1 {
            s.push_str("%grammar_type 'LALR(1)'\n");
        }
        s.push_str(extra_decls);
        s.push_str("%%\n");
        for p in &self.prods {
            s.push_str(&p.lhs);
            s.push(':');
            for x in &p.rhs {
                s.push(' ');
                if self.is_nt(x) {
                    s.push_str(x);
                } else {
                    s.push('\'');
                    s.push_str(x);
                    s.push('\'');
                }
            }
            s.push_str(";\n");
        }
        s
    }

    /// Project a parol `Cfg` to JSON.  `tname` names a terminal symbol.
    pub fn from_cfg(cfg: &Cfg, tname: &dyn Fn(&Terminal) -> String) -> JG {
        let nts: BTreeSet<String> = cfg.get_non_terminal_set();
        JG {
            start: cfg.st.clone(),
            nts: nts.into_iter().collect(),
            prods: cfg
                .pr
                .iter()
                .map(|p| JP {
                    lhs: p.get_n(),
                    rhs: p
                        .get_r()
                        .iter()
                        .map(|s| match s {
                            Symbol::N(n, ..) => n.clone(),
                            Symbol::T(t) => tname(t),
                            _ => "?".to_string(),
                        })
                        .collect(),
                })
                .collect(),
        }
    }
}

/// terminal name = its text (used for vector grammars where text == abstract name)
pub fn tname_text(t: &Terminal) -> String {
    match t {
        Terminal::Trm(s, ..) => s.clone(),
        Terminal::Eps => "<eps>".into(),
        Terminal::End => "$".into(),
    }
}

pub fn sorted(mut v: Vec<String>) -> Vec<String> {
    v.sort();
    v.dedup();
    v
}
